"""Shared definitions of the interpreter."""
from __future__ import annotations

from typing import Dict, List, Optional, Tuple

from .model import ClassInfo
from .values import Const, ExcV

NONE = Const(None)
TRUE = Const(True)
FALSE = Const(False)

BUILTIN_EXC = {
    "BaseException": None, "Exception": "BaseException", "TypeError": "Exception",
    "ValueError": "Exception", "LookupError": "Exception", "IndexError": "LookupError",
    "KeyError": "LookupError", "AttributeError": "Exception", "RuntimeError": "Exception",
    "RecursionError": "RuntimeError", "NotImplementedError": "RuntimeError",
    "ImportError": "Exception", "StopIteration": "Exception", "OSError": "Exception",
    "ArithmeticError": "Exception", "ZeroDivisionError": "ArithmeticError",
    "AssertionError": "Exception", "NameError": "Exception", "Warning": "Exception",
    "DeprecationWarning": "Warning", "UserWarning": "Warning",
}

MUTATING_METHODS = {
    "append", "insert", "extend", "pop", "remove", "clear", "add", "discard",
    "update", "setdefault", "popitem", "sort", "reverse", "__setitem__", "__delitem__",
    "difference_update", "intersection_update", "symmetric_difference_update",
    "__iadd__", "__ior__", "__iand__", "__isub__", "__ixor__", "move_to_end",
}
# primitives that may raise *instead of* writing (atomic) or when reading
RAISING_METHODS = {"pop": "IndexError/KeyError", "remove": "ValueError/KeyError",
                   "index": "ValueError", "popitem": "KeyError"}
PURE_METHODS = {
    "get", "items", "keys", "values", "index", "count", "copy", "startswith",
    "endswith", "format", "join", "split", "rsplit", "mro", "isidentifier", "upper",
    "lower", "union", "intersection", "difference", "issubset", "issuperset",
    "replace", "strip", "finditer", "group", "__contains__", "__getitem__", "__len__",
    "__iter__", "isdisjoint", "symmetric_difference", "title", "capitalize",
}


class Outcome:
    __slots__ = ("kind", "state", "value")

    def __init__(self, kind, state, value=None):
        self.kind = kind    # ok | exc  (expressions);  next|return|break|continue|exc (statements)
        self.state = state
        self.value = value


class Frame:
    __slots__ = ("fi", "env", "cls_ctx", "handlers")

    def __init__(self, fi, env, cls_ctx=None):
        self.fi = fi          # FunctionInfo
        self.env = env        # addr of Env
        self.cls_ctx = cls_ctx  # ClassInfo for zero-arg super()
        self.handlers = ()


class Config:
    """Per-scenario knobs."""

    def __init__(self):
        self.stubs: Dict[str, object] = {}      # function qualname suffix -> handler
        self.ext_models: Dict[str, object] = {}  # overrides of external models
        self.attr_hooks = []                    # callables (interp, st, objv, attr, site) -> V | None
        self.call_hooks = []                    # callables (interp, st, fv, args, kwargs, site) -> outcomes | None
        self.watch_calls = set()                # qualname suffixes to emit CALL events for
        self.max_states = 6000
        self.max_depth = 40
        self.loop_unroll = 2
        self.record_decisions = False           # keep decisions => no merging (decision tables)
        self.user_may_raise = True
        self.user_exc_classes = ("?",)
        self.implicit_raises = True             # fork on primitive raises inside try-blocks with matching handler
        self.sym_classes: Dict[tuple, ClassInfo] = {}  # tok -> in-repo class of a symbolic receiver
        self.sym_class_fns = []                 # callables tok -> ClassInfo | None
        self.sym_method_filter = lambda ci, name: True   # which class members of a symbolic receiver are interpreted
        self.constructor_attrs = set()          # attribute names whose call constructs a fresh object
        self.emit_chk = False
        self.record_truth_tests = False
        self.emit_reads = False
        self.guard_pred = None                  # fact keys snapshotted into W/U events
        self.fact_defaults = []                 # callables (key) -> bool | None  (assumption environment)


