"""Expression evaluation, assignment, calls (mixin of the interpreter)."""
from __future__ import annotations

import ast
import operator
from typing import Dict, List, Optional, Tuple

from .common import (FALSE, MUTATING_METHODS, NONE, PURE_METHODS, RAISING_METHODS, TRUE,
                     Frame, Outcome)
from .model import AnalysisError, ClassInfo, FunctionInfo, _dotted
from .state import Budget, State
from .values import (ARG, CLS, FRESH, GLOBAL, IMM, RECV, USER, BoundV, ClassV, Const,
                     DictO, Env, ExcV, ExtV, FuncV, Inst, ListO, ModuleV, PartialO, Ref,
                     Sentinel, Sym, TupleV, V, vkey, vrepr)

CLS_ATTRS = {"__spec_class__", "__class__", "__annotations__", "__mro__", "__bases__",
             "__name__", "__qualname__", "__doc__", "__module__"}

BINOPS = {ast.Add: operator.add, ast.Sub: operator.sub, ast.Mult: operator.mul,
          ast.Mod: operator.mod, ast.FloorDiv: operator.floordiv, ast.BitOr: operator.or_,
          ast.BitAnd: operator.and_}
CMPOPS = {ast.Lt: operator.lt, ast.LtE: operator.le, ast.Gt: operator.gt, ast.GtE: operator.ge,
          ast.Eq: operator.eq, ast.NotEq: operator.ne}
CMPNAME = {ast.Lt: "<", ast.LtE: "<=", ast.Gt: ">", ast.GtE: ">=", ast.Eq: "==", ast.NotEq: "!="}


class SuperV(V):
    __slots__ = ("cls_ctx", "self_v")

    def __init__(self, cls_ctx, self_v):
        self.cls_ctx = cls_ctx
        self.self_v = self_v

    def key(self):
        return ("SUPER", self.cls_ctx.qualname if self.cls_ctx else None, vkey(self.self_v))


def _as_load(target):
    import copy as _c
    t = _c.copy(target)
    t.ctx = ast.Load()
    return t


def prov_of(st: State, v: V) -> frozenset:
    if isinstance(v, Sym):
        return v.prov
    if isinstance(v, Ref):
        o = st.heap.get(v.addr)
        p = getattr(o, "prov", FRESH)
        return frozenset({p})
    if isinstance(v, (Const, Sentinel, TupleV, ExcV)):
        return frozenset({IMM})
    if isinstance(v, (FuncV, ClassV, ModuleV, ExtV)):
        return frozenset({CLS})
    if isinstance(v, BoundV):
        return prov_of(st, v.self_v)
    return frozenset({IMM})


def content_prov_of(st: State, v: V) -> frozenset:
    if isinstance(v, Sym):
        return v.content_prov()
    if isinstance(v, Ref):
        o = st.heap.get(v.addr)
        if isinstance(o, (ListO, DictO)):
            ps = set()
            vals = list(o.items.values()) if isinstance(o, DictO) else list(o.items)
            if o.rest is not None:
                vals.append(o.rest)
            for x in vals:
                ps |= prov_of(st, x)
            return frozenset(ps or {IMM})
    return prov_of(st, v)


class ExprMixin:
    # ================================================================= eval
    def eval(self, expr, st: State, frame: Frame) -> List[Outcome]:
        m = getattr(self, "e_" + type(expr).__name__, None)
        if m is None:
            raise AnalysisError(
                f"expression kind {type(expr).__name__} not modelled at {self.site(frame, expr)}")
        return m(expr, st, frame)

    def eval_many(self, exprs, st, frame, cont, acc=None) -> List[Outcome]:
        acc = acc or []
        if not exprs:
            return cont(st, acc)
        head, rest = exprs[0], exprs[1:]
        with self.pinned(acc):
            return self._ev(head, st, frame,
                            lambda s, v: self.eval_many(rest, s, frame, cont, acc + [v]))

    def ok(self, st, v):
        return [Outcome("ok", st, v)]

    def e_Constant(self, e, st, frame):
        return self.ok(st, Const(e.value))

    def e_Name(self, e, st, frame):
        return self.ok(st, self.lookup_name(st, frame, e.id, e))

    def e_JoinedStr(self, e, st, frame):
        return self.ok(st, Sym(("str",), {IMM}))

    e_FormattedValue = e_JoinedStr

    def e_Lambda(self, e, st, frame):
        fi = self.p.fn_by_node.get(id(e))
        if fi is None:
            raise AnalysisError("unindexed lambda")
        return self.ok(st, FuncV(fi, frame.env))

    def e_Tuple(self, e, st, frame):
        if any(isinstance(x, ast.Starred) for x in e.elts):
            return self._display(e, st, frame, "tuple")
        return self.eval_many(list(e.elts), st, frame, lambda s, vs: self.ok(s, TupleV(vs)))

    def e_List(self, e, st, frame):
        return self._display(e, st, frame, "list")

    def e_Set(self, e, st, frame):
        return self._display(e, st, frame, "set")

    def _display(self, e, st, frame, kind):
        exprs = [x.value if isinstance(x, ast.Starred) else x for x in e.elts]
        starred = [isinstance(x, ast.Starred) for x in e.elts]

        def cont(s, vs):
            items, rest_provs, has_rest = [], set(), False
            for v, star in zip(vs, starred):
                if not star:
                    items.append(v)
                    continue
                k, info = self.iter_items(s, v, frame, e)
                if k == "known":
                    items.extend(info)
                else:
                    has_rest = True
                    rest_provs |= content_prov_of(s, v)
            rest = Sym(("elems", self.site(frame, e)), rest_provs or {IMM}) if has_rest else None
            if kind == "tuple" and not has_rest:
                return self.ok(s, TupleV(items))
            addr = s.alloc(self.site(frame, e) + f":{kind}", ListO(items, rest, FRESH,
                           "set" if kind == "set" else "list"))
            return self.ok(s, Ref(addr))
        return self.eval_many(exprs, st, frame, cont)

    def e_Dict(self, e, st, frame):
        exprs, plan = [], []
        for k, v in zip(e.keys, e.values):
            if k is None:
                plan.append(("star", len(exprs)))
                exprs.append(v)
            else:
                plan.append(("kv", len(exprs)))
                exprs.extend([k, v])

        def cont(s, vs):
            d = DictO({}, None, FRESH)
            for kind, i in plan:
                if kind == "kv":
                    self._dict_store(s, d, vs[i], vs[i + 1])
                else:
                    self._dict_update(s, d, vs[i])
            addr = s.alloc(self.site(frame, e) + ":dict", d)
            return self.ok(s, Ref(addr))
        return self.eval_many(exprs, st, frame, cont)

    def _dict_store(self, st, d: DictO, k: V, v: V):
        if isinstance(k, Const) and k.value.__hash__ is not None:
            d.items[k.value] = v
        elif isinstance(k, Sym):
            d.items[("$sym",) + k.tok] = v      # strong update for the same symbolic key
        else:
            d.rest = v if d.rest is None else self.join(d.rest, v)

    @staticmethod
    def dict_key_value(k) -> V:
        if isinstance(k, tuple) and k and k[0] == "$sym":
            return Sym(k[1:], {IMM})
        return Const(k)

    def _dict_update(self, st, d: DictO, src: V):
        if isinstance(src, Ref) and isinstance(st.heap.get(src.addr), DictO):
            o = st.heap[src.addr]
            d.items.update(o.items)
            if o.rest is not None:
                d.rest = o.rest if d.rest is None else self.join(d.rest, o.rest)
        elif isinstance(src, Sym):
            r = Sym(src.tok + ("[]",), src.content_prov())
            d.rest = r if d.rest is None else self.join(d.rest, r)
        elif isinstance(src, (Const, Sentinel)):
            pass
        else:
            raise AnalysisError(f"dict update from {src!r}")

    def join(self, a: V, b: V) -> V:
        if vkey(a) == vkey(b):
            return a
        pa = a.prov if isinstance(a, Sym) else frozenset({IMM})
        pb = b.prov if isinstance(b, Sym) else frozenset({IMM})
        return Sym(("join", vrepr(a), vrepr(b)), pa | pb)

    def e_IfExp(self, e, st, frame):
        out = []
        for s, b in self.cond(e.test, st, frame):
            if isinstance(b, Outcome):
                out.append(b)
            else:
                out.extend(self.eval(e.body if b else e.orelse, s, frame))
        return out

    def e_BoolOp(self, e, st, frame):
        is_and = isinstance(e.op, ast.And)

        def go(i, s):
            if i == len(e.values) - 1:
                return self.eval(e.values[i], s, frame)
            out = []
            for o in self.eval(e.values[i], s, frame):
                if o.kind != "ok":
                    out.append(o)
                    continue
                for s2, b in self.truth(o.state, o.value):
                    if b != is_and:
                        out.append(Outcome("ok", s2, o.value))
                    else:
                        out.extend(go(i + 1, s2))
            return out
        return go(0, st)

    def e_UnaryOp(self, e, st, frame):
        if isinstance(e.op, ast.Not):
            out = []
            for s, b in self.cond(e.operand, st, frame):
                out.append(b if isinstance(b, Outcome) else Outcome("ok", s, Const(not b)))
            return out

        def cont(s, v):
            if isinstance(v, Const) and isinstance(v.value, (int, float)):
                if isinstance(e.op, ast.USub):
                    return self.ok(s, Const(-v.value))
                if isinstance(e.op, ast.UAdd):
                    return self.ok(s, Const(+v.value))
            return self.ok(s, Sym(("unary", type(e.op).__name__, vrepr(v)), {IMM}))
        return self._ev(e.operand, st, frame, cont)

    def e_BinOp(self, e, st, frame):
        return self.eval_many([e.left, e.right], st, frame,
                              lambda s, vs: self.ok(s, self.binop_value(s, vs[0], e.op, vs[1], frame, e)))

    def binop_value(self, st, a, op, b, frame, node) -> V:
        if isinstance(a, Const) and isinstance(b, Const) and type(op) in BINOPS:
            try:
                return Const(BINOPS[type(op)](a.value, b.value))
            except Exception:
                pass
        provs = set()
        for x in (a, b):
            provs |= content_prov_of(st, x)
        provs.discard(IMM)
        return Sym(("bin", type(op).__name__, vrepr(a), vrepr(b)), {FRESH}, inner=provs or {IMM})

    def e_Compare(self, e, st, frame):
        operands = [e.left] + list(e.comparators)

        def cont(s, vs):
            pend = [(s, True)]
            for i, op in enumerate(e.ops):
                nxt = []
                for s2, acc in pend:
                    if not acc:
                        nxt.append((s2, False))
                        continue
                    nxt.extend(self.compare(s2, vs[i], op, vs[i + 1], frame, e))
                pend = nxt
            return [Outcome("ok", s2, Const(b)) for s2, b in pend]
        return self.eval_many(operands, st, frame, cont)

    def compare(self, st, a, op, b, frame, node) -> List[Tuple[State, bool]]:
        if isinstance(op, ast.Is):
            return self.is_same(st, a, b)
        if isinstance(op, ast.IsNot):
            return [(s, not r) for s, r in self.is_same(st, a, b)]
        if isinstance(op, (ast.In, ast.NotIn)):
            res = self.contains(st, b, a, frame, node)
            return res if isinstance(op, ast.In) else [(s, not r) for s, r in res]
        if isinstance(a, TupleV) and all(isinstance(i, Const) for i in a.items):
            a = Const(tuple(i.value for i in a.items))
        if isinstance(b, TupleV) and all(isinstance(i, Const) for i in b.items):
            b = Const(tuple(i.value for i in b.items))
        if isinstance(a, Const) and isinstance(b, Const):
            try:
                return [(st, bool(CMPOPS[type(op)](a.value, b.value)))]
            except Exception:
                pass
        if isinstance(op, (ast.Eq, ast.NotEq)):
            ka, kb = self.ident_key(a), self.ident_key(b)
            if ka == kb:
                r = [(st, True)]
            elif not isinstance(a, Sym) and not isinstance(b, Sym) and \
                    isinstance(a, (Const, Sentinel, ClassV, FuncV, ExtV)) and \
                    isinstance(b, (Const, Sentinel, ClassV, FuncV, ExtV)):
                r = [(st, False)]
            else:
                x, y = sorted([repr(ka), repr(kb)])
                r = self.decide(st, ("eq", x, y))
            return r if isinstance(op, ast.Eq) else [(s, not v) for s, v in r]
        return self.decide(st, ("cmp", CMPNAME[type(op)], repr(self.ident_key(a)), repr(self.ident_key(b))))

    def contains(self, st, container, item, frame, node):
        if isinstance(container, TupleV):
            if all(isinstance(i, (Const, Sentinel, ClassV, ExtV)) for i in container.items) and \
                    isinstance(item, (Const, Sentinel, ClassV, ExtV)):
                return [(st, any(vkey(i) == vkey(item) for i in container.items))]
            if isinstance(item, Sym):
                # membership in a literal tuple: decide element-wise by identity/equality facts
                pend = [(st, False)]
                for el in container.items:
                    nxt = []
                    for s, hit in pend:
                        if hit:
                            nxt.append((s, True))
                        else:
                            nxt.extend(self.compare(s, item, ast.Eq(), el, frame, node))
                    pend = nxt
                return pend
        if isinstance(container, Ref):
            o = st.heap.get(container.addr)
            if isinstance(o, DictO):
                if isinstance(item, Sym) and ("$sym",) + item.tok in o.items:
                    return [(st, True)]
                if isinstance(item, Const):
                    try:
                        if item.value in o.items:
                            return [(st, True)]
                    except TypeError:
                        pass
                    if o.rest is None and not any(isinstance(k, tuple) and k[:1] == ("$sym",) for k in o.items):
                        return [(st, False)]
                elif o.rest is None and not o.items:
                    return [(st, False)]
                return self.decide(st, ("in", repr(self.ident_key(item)), ("ref",) + tuple(map(str, container.addr))))
            if isinstance(o, ListO):
                if o.rest is None and not o.items:
                    return [(st, False)]
                if o.rest is None and all(isinstance(i, Const) for i in o.items) and isinstance(item, Const):
                    return [(st, any(i.value == item.value for i in o.items))]
                return self.decide(st, ("in", repr(self.ident_key(item)), ("ref",) + tuple(map(str, container.addr))))
            if isinstance(o, Inst):
                res = []
                for oc in self.call_method(st, container, "__contains__", [item], {}, frame, node):
                    if oc.kind == "ok":
                        res.extend(self.truth(oc.state, oc.value))
                    else:
                        res.append((oc.state, oc))
                return res
        if isinstance(container, Sentinel) or (isinstance(container, Const) and container.value is None):
            return [(st, self.exc(st, "TypeError", self.site(frame, node)))]
        if isinstance(container, Const) and isinstance(item, Const):
            try:
                return [(st, item.value in container.value)]
            except Exception:
                pass
        return self.decide(st, ("in", repr(self.ident_key(item)), repr(self.ident_key(container))))

    # --------------------------------------------------------- comprehensions
    def _comp(self, e, st, frame, kind):
        site = self.site(frame, e)
        env_addr = st.alloc(site + ":compenv", Env({}, frame.env, frame.fi))
        sub = Frame(frame.fi, env_addr, frame.cls_ctx)
        sub.handlers = frame.handlers
        results = []   # (state, list of element values (or (k,v)), exact?)

        def gen(i, s, cont):
            if i == len(e.generators):
                return cont(s)
            g = e.generators[i]
            out = []
            for o in self.eval(g.iter, s, sub if i else frame):
                if o.kind != "ok":
                    out.append(o)
                    continue
                k, info = self.iter_items(o.state, o.value, frame, e)
                if k == "inst":
                    k, info = "unknown", (lambda n, v=o.value: Sym(("iter", vrepr(v), n), content_prov_of(o.state, v)))
                if k == "known":
                    items, exact = info, True
                elif k == "semi":
                    items, exact = info[0] + [info[1](0)], False
                else:
                    items, exact = [info(0)], False
                cur = [o.state]
                for it in items:
                    nxt = []
                    for s2 in cur:
                        for a in self.assign(g.target, it, s2, sub, e):
                            if a.kind != "next":
                                out.append(a)
                                continue
                            s3 = a.state
                            # filters: evaluated for effects, not branched upon
                            okc = True
                            for c in g.ifs:
                                pass
                            r = gen(i + 1, s3, cont)
                            for x in r:
                                if isinstance(x, Outcome):
                                    out.append(x)
                                else:
                                    nxt.append(x)
                    cur = nxt
                for s2 in cur:
                    out.append(s2)
                if not exact:
                    for s2 in out:
                        if isinstance(s2, State):
                            s2.heap[env_addr].vars["$inexact"] = TRUE
            return out

        def element(s):
            if kind == "dict":
                exprs = [e.key, e.value]
            else:
                exprs = [e.elt]
            res = []
            for o in self.eval_many(exprs, s, sub, lambda s2, vs: [Outcome("ok", s2, TupleV(vs))]):
                if o.kind != "ok":
                    res.append(o)
                    continue
                env = o.state.heap[env_addr]
                acc = env.vars.get("$acc")
                acc = TupleV((acc.items if acc else ()) + (o.value,))
                env.vars["$acc"] = acc
                res.append(o.state)
            return res

        outs = []
        for x in gen(0, st, element):
            if isinstance(x, Outcome):
                outs.append(x)
                continue
            s = x
            env = s.heap.pop(env_addr)
            acc = env.vars.get("$acc")
            inexact = "$inexact" in env.vars
            elems = [t.items for t in acc.items] if acc else []
            if kind == "dict":
                d = DictO({}, None, FRESH)
                for kv in elems:
                    if inexact:
                        d.rest = kv[1] if d.rest is None else self.join(d.rest, kv[1])
                    else:
                        self._dict_store(s, d, kv[0], kv[1])
                if inexact and d.rest is None:
                    d.rest = Sym(("elems", site), {IMM})
                addr = s.alloc(site + ":dictcomp", d)
            else:
                vals = [t[0] for t in elems]
                if inexact:
                    rest = None
                    for v in vals:
                        rest = v if rest is None else self.join(rest, v)
                    lo = ListO([], rest or Sym(("elems", site), {IMM}), FRESH,
                               "set" if kind == "set" else "list")
                else:
                    lo = ListO(vals, None, FRESH, "set" if kind == "set" else "list")
                addr = s.alloc(site + ":comp", lo)
            outs.append(Outcome("ok", s, Ref(addr)))
        return outs

    def e_ListComp(self, e, st, frame):
        return self._comp(e, st, frame, "list")

    def e_SetComp(self, e, st, frame):
        return self._comp(e, st, frame, "set")

    def e_GeneratorExp(self, e, st, frame):
        return self._comp(e, st, frame, "list")

    def e_DictComp(self, e, st, frame):
        return self._comp(e, st, frame, "dict")

    def e_Starred(self, e, st, frame):
        raise AnalysisError(f"bare starred expression at {self.site(frame, e)}")

    def e_Slice(self, e, st, frame):
        return self.ok(st, Sym(("slice",), {IMM}))

    # ------------------------------------------------------------ attributes
    def e_Attribute(self, e, st, frame):
        return self._ev(e.value, st, frame,
                        lambda s, v: self.load_attr(s, v, e.attr, frame, e))

    def _mangle(self, frame, attr):
        if attr.startswith("__") and not attr.endswith("__") and frame.fi.cls is not None:
            return f"_{frame.fi.cls.name.lstrip('_')}{attr}"
        return attr

    def child_sym(self, obj: Sym, attr: str) -> Sym:
        prov = obj.content_prov()
        if attr in CLS_ATTRS:
            prov = frozenset({CLS})
        return Sym(obj.tok + ("." + attr,), prov)

    def load_attr(self, st, objv, attr, frame, node) -> List[Outcome]:
        attr = self._mangle(frame, attr)
        site = self.site(frame, node)
        for h in self.cfg.attr_hooks:
            r = h(self, st, objv, attr, site)
            if r is not None:
                return r if isinstance(r, list) else self.ok(st, r)
        if isinstance(objv, Ref):
            o = st.heap.get(objv.addr)
            if isinstance(o, Inst):
                if attr in o.fields:
                    return self.ok(st, o.fields[attr])
                if attr == "__class__":
                    return self.ok(st, ClassV(o.cls))
                if attr == "__dict__":
                    return self.ok(st, Sym(("ref",) + tuple(map(str, objv.addr)) + (".__dict__",), {o.prov}))
                return self.class_attr(st, o.cls, attr, objv, frame, node)
            if isinstance(o, (DictO, ListO)):
                return self.ok(st, BoundV(objv, ExtV(f"container.{attr}")))
            if isinstance(o, PartialO):
                if attr == "func":
                    return self.ok(st, o.func)
                return self.ok(st, Sym(("partial", attr), {IMM}))
            raise AnalysisError(f"attribute {attr} of {o!r} at {site}")
        if isinstance(objv, Sym):
            if "proxy" in objv.tags and attr == "__wrapped__":
                thunk = st.heap.get(("proxy", objv.tok[1]))
                if thunk is not None:
                    return self.call_value(st, thunk.func, [], {}, frame, node)
            ci = self.sym_class(objv.tok)
            if ci is not None and self.cfg.sym_method_filter(ci, attr):
                c, m = self.p.lookup_method(ci, attr)
                if m is not None:
                    return self.class_attr(st, ci, attr, objv, frame, node)
            return self.ok(st, self.child_sym(objv, attr))
        if isinstance(objv, FuncV):
            if attr == "__name__":
                return self.ok(st, Const(objv.fi.name))
            return self.ok(st, Sym(("fn", objv.fi.qualname, "." + attr), {CLS}))
        if isinstance(objv, BoundV):
            if attr == "__func__":
                return self.ok(st, objv.func)
            if attr == "__self__":
                return self.ok(st, objv.self_v)
            return self.load_attr(st, objv.func, attr, frame, node)
        if isinstance(objv, ClassV):
            if attr == "__name__":
                return self.ok(st, Const(objv.ci.name))
            c, m = self.p.lookup_method(objv.ci, attr)
            if m is not None:
                return self.class_attr(st, objv.ci, attr, None, frame, node, on_class=objv)
            return self.ok(st, Sym(("class", objv.ci.name, "." + attr), {CLS}))
        if isinstance(objv, ModuleV):
            r = self.p.resolve_global(objv.mi, attr)
            if r is None:
                sub = self.p.modules.get(f"{objv.mi.name}.{attr}")
                if sub:
                    return self.ok(st, ModuleV(sub))
                return self.ok(st, Sym(("global", objv.mi.name, attr), {GLOBAL}))
            return self.ok(st, self._value_of_resolution(r, objv.mi, attr))
        if isinstance(objv, ExtV):
            full = f"{objv.name}.{attr}"
            if full == "copyreg.dispatch_table":
                return self.ok(st, Sym(("global", "copyreg", "dispatch_table"), {GLOBAL}))
            if full == "sys.version_info":
                import sys as _sys
                vi = getattr(self.cfg, "version_info", None) or tuple(_sys.version_info[:2])
                return self.ok(st, Const(tuple(vi)))
            return self.ok(st, ExtV(full))
        if isinstance(objv, SuperV):
            return self.super_attr(st, objv, attr, frame, node)
        if isinstance(objv, (Const, Sentinel, TupleV)):
            return self.ok(st, BoundV(objv, ExtV(f"const.{attr}")))
        if isinstance(objv, ExcV):
            return self.ok(st, Sym(("exc", objv.cls, "." + attr), {IMM}))
        raise AnalysisError(f"attribute {attr} of {objv!r} at {site}")

    def class_attr(self, st, ci: ClassInfo, attr, self_v, frame, node, on_class=None, after=None):
        c, m = self.p.lookup_method(ci, attr, after=after)
        if m is None:
            if self_v is not None and isinstance(self_v, Sym):
                return self.ok(st, self.child_sym(self_v, attr))
            if self_v is not None:
                # unknown attribute of an in-repo instance: absent field
                return [self.exc(st, "AttributeError", self.site(frame, node))]
            return self.ok(st, Sym(("class", ci.name, "." + attr), {CLS}))
        if isinstance(m, list):
            fi = m[0]
            kind = fi.kind()
            if len(m) > 1:   # property with setter/deleter: the getter is the first def
                kind = m[0].kind()
            fv = FuncV(fi, None)
            if kind == "static":
                return self.ok(st, fv)
            if kind == "class":
                return self.ok(st, BoundV(on_class or (ClassV(ci) if self_v is None else self._class_of(st, self_v, ci)), fv))
            if kind in ("property", "cached_property"):
                if self_v is None:
                    return self.ok(st, Sym(("class", c.name, "." + attr), {CLS}))
                if kind == "cached_property" and isinstance(self_v, Ref):
                    pass
                outs = self.call_function(st, fv, [self_v], {}, frame, node, cls_ctx=c)
                if kind == "cached_property" and isinstance(self_v, Ref):
                    for o in outs:
                        if o.kind == "ok" and isinstance(o.state.heap.get(self_v.addr), Inst):
                            o.state.heap[self_v.addr].fields[attr] = o.value
                return outs
            if self_v is None:
                return self.ok(st, fv)
            return self.ok(st, BoundV(self_v, fv))
        # class-level data attribute `NAME = expr`
        v = self.class_data(c, attr, m)
        return self.ok(st, v)

    def _class_of(self, st, self_v, ci):
        if isinstance(self_v, Ref) and isinstance(st.heap.get(self_v.addr), Inst):
            return ClassV(st.heap[self_v.addr].cls)
        return ClassV(ci)

    def class_data(self, c: ClassInfo, attr, expr) -> V:
        ck = ("classdata", c.qualname, attr)
        if ck in self._global_cache:
            return self._global_cache[ck]
        if isinstance(expr, ast.Constant):
            v = Const(expr.value)
        elif isinstance(expr, (ast.Name, ast.Attribute)) and _dotted(expr):
            try:
                r = self.p.resolve_dotted_in(c.module, _dotted(expr))
                v = self._value_of_resolution(r, c.module, attr) if r and r[0] != "classattr" \
                    else Sym(("class", c.name, "." + attr), {CLS})
            except AnalysisError:
                v = Sym(("class", c.name, "." + attr), {CLS})
        elif isinstance(expr, ast.Call) and _dotted(expr.func) in ("RLock", "threading.RLock", "Lock"):
            v = Sym(("class", c.name, "." + attr), {GLOBAL}, tags={"lock"})
        elif isinstance(expr, ast.Tuple) and all(isinstance(x, ast.Constant) for x in expr.elts):
            v = TupleV([Const(x.value) for x in expr.elts])
        else:
            v = Sym(("class", c.name, "." + attr), {CLS})
        self._global_cache[ck] = v
        return v

    def super_attr(self, st, sv: SuperV, attr, frame, node):
        self_v = sv.self_v
        ci = None
        if isinstance(self_v, Ref) and isinstance(st.heap.get(self_v.addr), Inst):
            ci = st.heap[self_v.addr].cls
        elif isinstance(self_v, Sym):
            ci = self.sym_class(self_v.tok)
        elif isinstance(self_v, ClassV):
            ci = self_v.ci
        if ci is None:
            ci = sv.cls_ctx
        c, m = self.p.lookup_method(ci, attr, after=sv.cls_ctx)
        if m is None:
            # falls through to object / external base
            return self.ok(st, BoundV(self_v, ExtV(f"object.{attr}")))
        if isinstance(self_v, ClassV):
            return self.class_attr(st, ci, attr, None, frame, node, on_class=self_v, after=sv.cls_ctx)
        return self.class_attr(st, ci, attr, self_v, frame, node, after=sv.cls_ctx)

    # ------------------------------------------------------------ subscripts
    def e_Subscript(self, e, st, frame):
        return self.eval_many([e.value, e.slice], st, frame,
                              lambda s, vs: self.load_item(s, vs[0], vs[1], frame, e))

    def _implicit_raise(self, st, frame, node, classes, what):
        """Fork exceptional outcomes for a primitive that may raise, if an
        enclosing handler of this frame names one of `classes`."""
        outs = []
        if not self.cfg.implicit_raises:
            return outs
        site = self.site(frame, node)
        named = set()
        for t in frame.handlers:
            for h in t.handlers:
                if h.type is None:
                    continue
                names = [h.type] if not isinstance(h.type, ast.Tuple) else list(h.type.elts)
                for n in names:
                    d = (_dotted(n) or "").rsplit(".", 1)[-1]
                    if d in classes:
                        named.add(d)
        for cls in sorted(named):
            key = ("raises", cls, site, what)
            v = self.fact(st, key)
            if v is False:
                continue
            if v is None:
                s2 = st.clone()
                self.set_fact(s2, key, True)
                self.set_fact(st, key, False)
                outs.append(Outcome("exc", s2, ExcV(cls, site)))
            else:
                return [Outcome("exc", st, ExcV(cls, site))] + [None]
        return outs

    def load_item(self, st, objv, idx, frame, node) -> List[Outcome]:
        site = self.site(frame, node)
        if isinstance(objv, TupleV) and isinstance(idx, Const) and isinstance(idx.value, int):
            try:
                return self.ok(st, objv.items[idx.value])
            except IndexError:
                return [self.exc(st, "IndexError", site)]
        if isinstance(objv, TupleV) and isinstance(idx, Sym):
            return self.ok(st, Sym(("tupleitem", vrepr(idx)), {IMM}))
        if isinstance(objv, Ref):
            o = st.heap.get(objv.addr)
            if isinstance(o, DictO):
                if isinstance(idx, Sym) and ("$sym",) + idx.tok in o.items:
                    return self.ok(st, o.items[("$sym",) + idx.tok])
                if isinstance(idx, Const):
                    try:
                        if idx.value in o.items:
                            return self.ok(st, o.items[idx.value])
                    except TypeError:
                        pass
                if o.rest is not None:
                    return self.ok(st, o.rest)
                if o.items and not isinstance(idx, Const):
                    return self.ok(st, list(o.items.values())[0])
                return [self.exc(st, "KeyError", site)]
            if isinstance(o, ListO):
                if isinstance(idx, Const) and isinstance(idx.value, int) and o.rest is None:
                    try:
                        return self.ok(st, o.items[idx.value])
                    except IndexError:
                        return [self.exc(st, "IndexError", site)]
                if o.rest is not None:
                    return self.ok(st, o.rest)
                if o.items:
                    return self.ok(st, o.items[0])
                return [self.exc(st, "IndexError", site)]
            if isinstance(o, Inst):
                return self.call_method(st, objv, "__getitem__", [idx], {}, frame, node)
        if isinstance(objv, Sym):
            ci = self.sym_class(objv.tok)
            if ci is not None and self.p.lookup_method(ci, "__getitem__")[1] is not None:
                return self.call_method(st, objv, "__getitem__", [idx], {}, frame, node)
            outs = []
            if self.cfg.emit_reads:
                st.emit("RD", "getitem", vrepr(objv), (vrepr(idx),), site)
            if CLS not in objv.prov and IMM not in objv.prov:
                r = self._implicit_raise(st, frame, node, {"IndexError", "KeyError", "LookupError", "TypeError"}, "getitem")
                if r and r[-1] is None:
                    return r[:-1]
                outs.extend(r)
            if isinstance(idx, Const):
                child = Sym(objv.tok + (f"[{idx.value!r}]",), objv.content_prov())
            elif isinstance(idx, Sym) and idx.tok == ("slice",):
                child = Sym(objv.tok + ("[:]",), {FRESH}, inner=objv.content_prov())
            else:
                child = Sym(objv.tok + ("[" + vrepr(idx) + "]",), objv.content_prov())
            outs.append(Outcome("ok", st, child))
            return outs
        if isinstance(objv, (ExtV, ClassV)):
            return self.ok(st, objv)   # typing subscription: Generic[T] etc.
        if isinstance(objv, Const) and objv.value is not None:
            return self.ok(st, Sym(("constitem",), {IMM}))
        if isinstance(objv, (Sentinel, Const)):
            return [self.exc(st, "TypeError", site)]
        raise AnalysisError(f"subscript of {objv!r} at {site}")

    # ------------------------------------------------------------ assignment
    def assign(self, target, value, st, frame, node) -> List[Outcome]:
        if isinstance(target, ast.Name):
            self._bind(st, frame, target.id, value)
            return [Outcome("next", st)]
        if isinstance(target, (ast.Tuple, ast.List)):
            n = len(target.elts)
            if isinstance(value, TupleV) and len(value.items) == n:
                parts = list(value.items)
            elif isinstance(value, Sym):
                if "pairs" in value.tags or "pair" in value.tags:
                    parts = [Sym(value.tok + (f"[{i}]",), value.content_prov()) for i in range(n)]
                else:
                    parts = [Sym(value.tok + (f"[{i}]",), value.content_prov()) for i in range(n)]
            elif isinstance(value, Ref) and isinstance(st.heap.get(value.addr), ListO) and \
                    st.heap[value.addr].rest is None and len(st.heap[value.addr].items) == n:
                parts = list(st.heap[value.addr].items)
            else:
                raise AnalysisError(f"cannot unpack {value!r} at {self.site(frame, node)}")
            outs = [Outcome("next", st)]
            for t, pv in zip(target.elts, parts):
                nxt = []
                for o in outs:
                    if o.kind == "next":
                        nxt.extend(self.assign(t, pv, o.state, frame, node))
                    else:
                        nxt.append(o)
                outs = nxt
            return outs
        if isinstance(target, ast.Attribute):
            def cont(s, objv):
                return self.store_attr(s, objv, target.attr, value, frame, node)
            return self._ev(target.value, st, frame, cont)
        if isinstance(target, ast.Subscript):
            return self.eval_many([target.value, target.slice], st, frame,
                                  lambda s, vs: self.store_item(s, vs[0], vs[1], value, frame, node))
        raise AnalysisError(f"assignment target {type(target).__name__}")

    def _bind(self, st, frame, name, value):
        # honour closure cells: if name is declared nonlocal we would need it; package has none
        st.heap[frame.env].vars[name] = value

    def via(self):
        stack = getattr(self, "_stack", [])
        return ">".join(q.split(":")[-1].split("#")[0] for q in stack[-7:])

    def guards(self, st):
        """Snapshot of the facts (selected by cfg.guard_pred) holding when an event is emitted."""
        gp = self.cfg.guard_pred
        return tuple(sorted(((k, v) for k, v in st.facts.items() if gp(k)), key=repr))

    def w_event(self, st, how, target: V, attr, value: Optional[V], site):
        # ('W', how, target, target_prov, attr, value, value_prov, value_tags, via, site)
        if isinstance(target, Sym) and (how.startswith("method:") or how in ("setitem", "delitem")):
            # a container operation succeeded on it: it is a real container, not one of the marker objects / None
            for other in (("S", "MISSING"), ("S", "EMPTY"), ("S", "UNCHANGED"), ("C", "NoneType", "None")):
                st.facts.setdefault(("is", target.tok, other), False)
        st.emit("W", how, vrepr(target), tuple(sorted(prov_of(st, target))), attr,
                None if value is None else vrepr(value),
                None if value is None else tuple(sorted(prov_of(st, value))),
                self.guards(st) if self.cfg.guard_pred else
                (tuple(sorted(map(str, value.tags))) if isinstance(value, Sym) else ()),
                self.via(), site)

    def store_attr(self, st, objv, attr, value, frame, node, how="setattr") -> List[Outcome]:
        attr = self._mangle(frame, attr)
        site = self.site(frame, node)
        for h in self.cfg.attr_hooks:
            r = h(self, st, objv, ("store", attr, value), site)
            if r is not None:
                return r
        if isinstance(objv, Ref) and isinstance(st.heap.get(objv.addr), Inst):
            o = st.heap[objv.addr]
            c, m = self.p.lookup_method(o.cls, "__setattr__")
            if m is not None and isinstance(m, list) and how == "setattr":
                return [Outcome("next" if x.kind == "ok" else x.kind, x.state, x.value)
                        for x in self.call_function(st, FuncV(m[0], None), [objv, Const(attr), value], {}, frame, node, cls_ctx=c)]
            # property setter?
            c, m = self.p.lookup_method(o.cls, attr)
            if isinstance(m, list) and len(m) > 1 and any(f.kind() == "setter" for f in m):
                setter = [f for f in m if f.kind() == "setter"][0]
                return [Outcome("next" if x.kind == "ok" else x.kind, x.state, x.value)
                        for x in self.call_function(st, FuncV(setter, None), [objv, value], {}, frame, node, cls_ctx=c)]
            o.fields[attr] = value
            if o.prov != FRESH:
                self.w_event(st, how, objv, attr, value, site)
            return [Outcome("next", st)]
        if isinstance(objv, Sym):
            ci = self.sym_class(objv.tok)
            if ci is not None:
                c, m = self.p.lookup_method(ci, attr)
                if isinstance(m, list) and any(f.kind() == "setter" for f in m):
                    setter = [f for f in m if f.kind() == "setter"][0]
                    return [Outcome("next" if x.kind == "ok" else x.kind, x.state, x.value)
                            for x in self.call_function(st, FuncV(setter, None), [objv, value], {}, frame, node, cls_ctx=c)]
            self.w_event(st, how, objv, attr, value, site)
            return [Outcome("next", st)]
        if isinstance(objv, (ClassV, FuncV, ModuleV, ExtV, BoundV)):
            self.w_event(st, how, objv, attr, value, site)
            return [Outcome("next", st)]
        if isinstance(objv, Sentinel):
            st.emit("W", how, "sentinel:" + objv.name, (GLOBAL,), attr, vrepr(value),
                    tuple(sorted(prov_of(st, value))), (), self.via(), site)
            return [Outcome("next", st)]
        if isinstance(objv, (Const, TupleV)):
            return [self.exc(st, "AttributeError", site)]
        if isinstance(objv, ExcV):
            return [Outcome("next", st)]
        raise AnalysisError(f"attribute store on {objv!r} at {site}")

    def store_item(self, st, objv, idx, value, frame, node) -> List[Outcome]:
        site = self.site(frame, node)
        if isinstance(objv, Ref):
            o = st.heap.get(objv.addr)
            if isinstance(o, DictO):
                self._dict_store(st, o, idx, value)
                if o.prov != FRESH:
                    self.w_event(st, "setitem", objv, vrepr(idx), value, site)
                return [Outcome("next", st)]
            if isinstance(o, ListO):
                if isinstance(idx, Const) and isinstance(idx.value, int) and o.rest is None \
                        and -len(o.items) <= idx.value < len(o.items):
                    o.items[idx.value] = value
                else:
                    o.rest = value if o.rest is None else self.join(o.rest, value)
                return [Outcome("next", st)]
            if isinstance(o, Inst):
                return [Outcome("next" if x.kind == "ok" else x.kind, x.state, x.value)
                        for x in self.call_method(st, objv, "__setitem__", [idx, value], {}, frame, node)]
        if isinstance(objv, Sym):
            ci = self.sym_class(objv.tok)
            if ci is not None and self.p.lookup_method(ci, "__setitem__")[1] is not None:
                return [Outcome("next" if x.kind == "ok" else x.kind, x.state, x.value)
                        for x in self.call_method(st, objv, "__setitem__", [idx, value], {}, frame, node)]
            st.emit("MR", "setitem:" + vrepr(objv), site)
            self.w_event(st, "setitem", objv, vrepr(idx), value, site)
            return [Outcome("next", st)]
        raise AnalysisError(f"subscript store on {objv!r} at {site}")

    def delete(self, target, st, frame, node) -> List[Outcome]:
        site = self.site(frame, node)
        if isinstance(target, ast.Name):
            st.heap[frame.env].vars.pop(target.id, None)
            return [Outcome("next", st)]
        if isinstance(target, ast.Attribute):
            def cont(s, objv):
                return self.del_attr(s, objv, target.attr, frame, node)
            return self._ev(target.value, st, frame, cont)
        if isinstance(target, ast.Subscript):
            def cont(s, vs):
                objv, idx = vs
                if isinstance(objv, Ref):
                    o = s.heap.get(objv.addr)
                    if isinstance(o, DictO):
                        if isinstance(idx, Const):
                            o.items.pop(idx.value, None)
                        if o.prov != FRESH:
                            self.w_event(s, "delitem", objv, vrepr(idx), None, site)
                        return [Outcome("next", s)]
                    if isinstance(o, ListO):
                        return [Outcome("next", s)]
                    if isinstance(o, Inst):
                        return [Outcome("next" if x.kind == "ok" else x.kind, x.state, x.value)
                                for x in self.call_method(s, objv, "__delitem__", [idx], {}, frame, node)]
                if isinstance(objv, Sym):
                    ci = self.sym_class(objv.tok)
                    if ci is not None and self.p.lookup_method(ci, "__delitem__")[1] is not None:
                        return [Outcome("next" if x.kind == "ok" else x.kind, x.state, x.value)
                                for x in self.call_method(s, objv, "__delitem__", [idx], {}, frame, node)]
                    outs = []
                    r = self._implicit_raise(s, frame, node, {"IndexError", "KeyError", "LookupError", "TypeError"}, "delitem")
                    if r and r[-1] is None:
                        return r[:-1]
                    outs.extend(r)
                    s.emit("MR", "delitem:" + vrepr(objv), site)
                    self.w_event(s, "delitem", objv, vrepr(idx), None, site)
                    outs.append(Outcome("next", s))
                    return outs
                if isinstance(objv, (Sentinel, Const)):
                    return [self.exc(s, "TypeError", site)]
                raise AnalysisError(f"del subscript on {objv!r} at {site}")
            return self.eval_many([target.value, target.slice], st, frame, cont)
        raise AnalysisError(f"del target {type(target).__name__}")

    def del_attr(self, st, objv, attr, frame, node, how="delattr") -> List[Outcome]:
        attr = self._mangle(frame, attr)
        site = self.site(frame, node)
        for h in self.cfg.attr_hooks:
            r = h(self, st, objv, ("del", attr), site)
            if r is not None:
                return r
        if isinstance(objv, Ref) and isinstance(st.heap.get(objv.addr), Inst):
            o = st.heap[objv.addr]
            if attr not in o.fields:
                return [self.exc(st, "AttributeError", site)]
            del o.fields[attr]
            if o.prov != FRESH:
                self.w_event(st, how, objv, attr, None, site)
            return [Outcome("next", st)]
        if isinstance(objv, (Sym, ClassV, FuncV)):
            outs = []
            if how == "delattr()" and getattr(self.cfg, "delattr_may_raise", False):
                # nothing stored under that name: delattr raises before changing anything
                s2 = st.clone()
                self.tick()
                s2.emit("DELFAIL", vrepr(objv), attr, site)
                outs.append(self.exc(s2, "AttributeError", site))
            self.w_event(st, how, objv, attr, None, site)
            outs.append(Outcome("next", st))
            return outs
        raise AnalysisError(f"attribute delete on {objv!r} at {site}")
