"""
Entry-point discovery (from the package's own registries) and the scenario
configuration shared by the helper-level rules.
"""
from __future__ import annotations

import ast
from typing import Dict, List, Optional

from .common import FALSE, NONE, TRUE, Config, Outcome
from .interp import Interp
from .model import AnalysisError, ClassInfo, FunctionInfo, Program, _dotted
from .state import State
from .values import (ARG, CLS, FRESH, GLOBAL, IMM, RECV, USER, BoundV, ClassV, Const, DictO,
                     ExcV, ExtV, FuncV, Inst, ListO, PartialO, Ref, Sentinel, Sym, TupleV, V, vrepr)

REGISTRIES = {
    "SCALAR_METHODS": "scalar",
    "TOPLEVEL_METHODS": "toplevel",
    "SEQUENCE_METHODS": "sequence",
    "MAPPING_METHODS": "mapping",
    "SET_METHODS": "set",
    "CORE_METHODS": "core",
}
MUTATOR_OF = {"sequence": "SequenceMutator", "mapping": "MappingMutator", "set": "SetMutator"}


class Helper:
    def __init__(self, family, desc_cls: ClassInfo, impl: FunctionInfo, bound_attr_spec: bool,
                 name_expr: Optional[str], build: FunctionInfo):
        self.family = family
        self.desc_cls = desc_cls
        self.impl = impl
        self.bound_attr_spec = bound_attr_spec   # partial(self.impl, self.attr_spec)
        self.name_expr = name_expr               # source text of the method name expression
        self.build = build

    @property
    def id(self):
        return f"{self.desc_cls.name}.{self.impl_name}"

    @property
    def impl_name(self):
        """The name the descriptor class knows the implementation by (the function may be a module-level one
        bound as `name = staticmethod(_name)`)."""
        return _IMPL_ATTR.get(self.impl.qualname, self.impl.name)

    def params(self):
        a = self.impl.node.args
        names = [p.arg for p in a.posonlyargs + a.args]
        skip = 2 if self.bound_attr_spec else 1
        return {
            "positional": names[skip:],
            "kwonly": [p.arg for p in a.kwonlyargs],
            "varkw": a.kwarg.arg if a.kwarg else None,
            "pos_defaults": a.defaults,
            "kw_defaults": a.kw_defaults,
        }

    def __repr__(self):
        return f"<helper {self.family}:{self.id}>"


def _registry_classes(p: Program, regname: str) -> List[ClassInfo]:
    hits = []
    for m in p.modules.values():
        if not m.name.startswith(p.package):
            continue
        b = m.bindings.get(regname)
        if b and b[0] == "assign" and isinstance(b[1], (ast.List, ast.Tuple)):
            for el in b[1].elts:
                d = _dotted(el)
                r = p.resolve_dotted_in(m, d) if d else None
                if not r or r[0] != "class":
                    raise AnalysisError(f"registry {regname}: cannot resolve entry {ast.dump(el)[:60]}")
                hits.append(r[1])
            return hits
    raise AnalysisError(f"registry {regname} not found")


_IMPL_ATTR: Dict[str, str] = {}      # implementation qualname -> the attribute name it is reached by on the descriptor class


def _impl_of(p: Program, ci: ClassInfo):
    """Implementation function bound by the descriptor's build_method."""
    c, m = p.lookup_method(ci, "build_method")
    if not isinstance(m, list):
        raise AnalysisError(f"{ci.qualname}: no build_method")
    build = m[0]
    # 1. functools.partial(self.<impl>, self.attr_spec / self.spec_cls) or MethodBuilder(name, self.<impl>)
    for node in ast.walk(build.node):
        if isinstance(node, ast.Call):
            d = _dotted(node.func) or ""
            if d.endswith("partial") and node.args and isinstance(node.args[0], ast.Attribute) \
                    and _dotted(node.args[0].value) == "self":
                impl = node.args[0].attr
                bound = [(_dotted(a) or "") for a in node.args[1:]]
                c2, m2 = p.lookup_method(ci, impl)
                if isinstance(m2, list):
                    _IMPL_ATTR[m2[0].qualname] = impl
                    return m2[0], bound, build
            if d.endswith("MethodBuilder") and len(node.args) >= 2 and isinstance(node.args[1], ast.Attribute) \
                    and _dotted(node.args[1].value) == "self":
                c2, m2 = p.lookup_method(ci, node.args[1].attr)
                if isinstance(m2, list):
                    _IMPL_ATTR[m2[0].qualname] = node.args[1].attr
                    return m2[0], [], build
    # 2. `return self.<impl>`
    for node in ast.walk(build.node):
        if isinstance(node, ast.Return) and isinstance(node.value, ast.Attribute) \
                and _dotted(node.value.value) == "self":
            c2, m2 = p.lookup_method(ci, node.value.attr)
            if isinstance(m2, list):
                _IMPL_ATTR[m2[0].qualname] = node.value.attr
                return m2[0], [], build
    # 3. closure defined in build_method and returned
    for node in build.node.body:
        if isinstance(node, ast.FunctionDef):
            fi = p.fn_by_node.get(id(node))
            return fi, ["<closure>"], build
    raise AnalysisError(f"{ci.qualname}: cannot find implementation bound in build_method")


def discover(p: Program) -> Dict[str, List[Helper]]:
    out: Dict[str, List[Helper]] = {}
    for reg, fam in REGISTRIES.items():
        hs = []
        for ci in _registry_classes(p, reg):
            impl, bound, build = _impl_of(p, ci)
            name_expr = None
            c, m = p.lookup_method(ci, "method_name")
            if isinstance(m, list):
                for n in ast.walk(m[0].node):
                    if isinstance(n, ast.Return) and n.value is not None:
                        name_expr = ast.unparse(n.value)
            elif m is not None:
                name_expr = ast.unparse(m)
            hs.append(Helper(fam, ci, impl, any("attr_spec" in b for b in bound), name_expr, build))
        out[fam] = hs
    n_helpers = sum(len(out[f]) for f in ("scalar", "toplevel", "sequence", "mapping", "set"))
    if n_helpers < 19 or len(out["core"]) < 7:
        raise AnalysisError(f"registry floor: {n_helpers} helpers / {len(out['core'])} core methods (need 19 / 7)")
    return out


def core_impl(helpers, method_name_hint: str) -> Helper:
    for h in helpers["core"]:
        if h.impl_name.strip("_") == method_name_hint.strip("_"):
            return h
    raise AnalysisError(f"core method {method_name_hint} not found")


# =========================================================================
#                              stubs
# =========================================================================
def stub_check_type(interp, st, args, kwargs, frame, node):
    a = [x for x in args if not isinstance(x, tuple)]
    value = a[0] if a else kwargs.get("value")
    typ = a[1] if len(a) > 1 else kwargs.get("attr_type")
    site = interp.site(frame, node)
    key = ("check", repr(interp.ident_key(value)), vrepr(typ))
    outs = []
    for s, b in interp.decide(st, key):
        if getattr(interp.cfg, "emit_chk", False):
            s.emit("CHK", vrepr(value), vrepr(typ), b, site)
        outs.append(Outcome("ok", s, Const(b)))
    return outs


def stub_imm(tag):
    def f(interp, st, args, kwargs, frame, node):
        return [Outcome("ok", st, Sym((tag,), {IMM}))]
    return f


def stub_noop_cm(interp, st, args, kwargs, frame, node):
    return [Outcome("ok", st, Sym(("modules_copyable_cm",), {IMM}))]


def stub_invalidate(interp, st, args, kwargs, frame, node):
    a = [x for x in args if not isinstance(x, tuple)]
    obj = a[0] if a else kwargs.get("obj")
    attr = a[1] if len(a) > 1 else kwargs.get("attr")
    st.emit("INV", vrepr(obj), vrepr(attr), tuple(sorted(_prov(st, obj))), interp.site(frame, node))
    return [Outcome("ok", st, NONE)]


def _prov(st, v):
    from .exprs import prov_of
    return prov_of(st, v)


def stub_function_args(interp, st, args, kwargs, frame, node):
    st.emit("MEMO", "function.__spec_class_args__", interp.site(frame, node))
    return [Outcome("ok", st, Sym(("constructor_args",), {IMM}))]


def stub_type_instantiate(interp, st, args, kwargs, frame, node):
    site = interp.site(frame, node)
    return [Outcome("ok", st, Sym(("new_collection", site), {FRESH}, tags={"nonsentinel", "container"}))]


DEFAULT_STUBS = {
    "check_type": stub_check_type,
    "type_label": stub_imm("type_label"),
    "_modules_copyable.<new>": stub_noop_cm,
    "invalidate_attrs": stub_invalidate,
    "_get_function_args": stub_function_args,
    "type_instantiate": stub_type_instantiate,
    "get_spec_classes_depth": stub_imm("depth"),
}


# =========================================================================
#                       spec-instance protocol hooks
# =========================================================================
def strip_copy(tok):
    while tok and tok[0] in ("copy", "shallowcopy"):
        tok = tok[1:]
    return tok


class SpecProtocol:
    """Frozen dispatch table of DESIGN.md 1.2 for objects tagged 'specinst'."""

    def __init__(self, program: Program, helpers, mutator_family: Optional[str] = None,
                 setattr_mode="event", deepcopy_mode="fresh"):
        self.p = program
        self.helpers = helpers
        self.mutator_family = mutator_family
        self.setattr_mode = setattr_mode     # 'event' | 'inline'
        self.deepcopy_mode = deepcopy_mode   # 'fresh' | 'inline'
        self.setattr_closure = core_impl(helpers, "__setattr__").impl
        self.delattr_closure = core_impl(helpers, "__delattr__").impl
        self.deepcopy_impl = core_impl(helpers, "deepcopy").impl
        self._inl = 0

    # attribute hook ------------------------------------------------------
    def attr_hook(self, interp, st, objv, attr, site):
        if isinstance(attr, tuple):
            return None
        if isinstance(objv, Sym):
            if objv.tok[-1:] == ("attr_spec",) or objv.tok == ("attr_spec",):
                if attr == "get_collection_mutator" and self.mutator_family:
                    mc = self.p.find_class(MUTATOR_OF[self.mutator_family])
                    addr = st.alloc("partial:get_collection_mutator", PartialO(ClassV(mc), (objv,), {}))
                    return Ref(addr)
            if "specinst" in objv.tags:
                if attr == "__setattr__":
                    return Sym(objv.tok + (".__setattr__",), objv.prov, tags={"spec_setattr"})
                if attr == "__delattr__":
                    return Sym(objv.tok + (".__delattr__",), objv.prov, tags={"spec_delattr"})
                if attr in ("__spec_class__", "__class__"):
                    return Sym(strip_copy(objv.tok) + ("." + attr,), {CLS})
            if "spec_setattr" in objv.tags and attr == "__raw__":
                return ExtV("$rawset")
            if "spec_delattr" in objv.tags and attr == "__raw__":
                return ExtV("$rawdel")
        return None

    # call hook -------------------------------------------------------------
    def call_hook(self, interp, st, what, args, kwargs, frame, node):
        kind = what[0]
        if kind == "attr":
            recv, name = what[1], what[2]
            if isinstance(recv, Sym) and "specinst" in recv.tags and name in ("__setattr__", "__delattr__"):
                fi = self.setattr_closure if name == "__setattr__" else self.delattr_closure
                return interp.call_function(st, FuncV(fi, None), [recv] + list(args), kwargs, frame, node)
            if isinstance(recv, Sym) and name == "__new__" and strip_copy(recv.tok) == ("self", ".__class__"):
                # type(self).__new__(type(self)): a new, empty instance of the same spec class
                return [Outcome("ok", st, Sym(("new", interp.site(frame, node)), {FRESH},
                                              tags={"specinst", "nonsentinel"}))]
        return None

    # external models ------------------------------------------------------
    def ext_getattr_raw(self, interp, st, args, kwargs, frame, node):
        """getattr(obj.__setattr__, "__raw__", setattr) on a spec instance."""
        a = [x for x in args if not isinstance(x, tuple)]
        if len(a) == 3 and isinstance(a[0], Sym) and "spec_setattr" in a[0].tags \
                and isinstance(a[1], Const) and a[1].value == "__raw__":
            return [Outcome("ok", st, ExtV("$rawset"))]
        if len(a) == 3 and isinstance(a[0], Sym) and "spec_delattr" in a[0].tags \
                and isinstance(a[1], Const) and a[1].value == "__raw__":
            return [Outcome("ok", st, ExtV("$rawdel"))]
        return None

    def ext_rawset(self, interp, st, args, kwargs, frame, node):
        a = [x for x in args if not isinstance(x, tuple)]
        site = interp.site(frame, node)
        outs = []
        if getattr(interp.cfg, "rawset_raises", True):
            r = interp._implicit_raise(st, frame, node, {"AttributeError"}, "rawset")
            if r and r[-1] is None:
                return r[:-1]
            outs.extend(r)
        interp.w_event(st, "rawset", a[0], vrepr(a[1]), a[2], site)
        outs.append(Outcome("ok", st, NONE))
        return outs

    def ext_rawdel(self, interp, st, args, kwargs, frame, node):
        a = [x for x in args if not isinstance(x, tuple)]
        site = interp.site(frame, node)
        st.emit("MR", "rawdel", site)
        interp.w_event(st, "rawdel", a[0], vrepr(a[1]), None, site)
        return [Outcome("ok", st, NONE)]

    def ext_setattr(self, interp, st, args, kwargs, frame, node):
        a = [x for x in args if not isinstance(x, tuple)]
        if isinstance(a[0], Sym) and "specinst" not in a[0].tags:
            st.emit("MR", "setattr()", interp.site(frame, node))   # may be a spec instance: type-checks
        if isinstance(a[0], Sym) and "specinst" in a[0].tags:
            site = interp.site(frame, node)
            if self.setattr_mode == "inline" and self._inl < 1:
                self._inl += 1
                try:
                    return interp.call_function(st, FuncV(self.setattr_closure, None), a, {}, frame, node)
                finally:
                    self._inl -= 1
            st.emit("MR", "setattr()", site)      # __setattr__ type-checks: may raise before writing
        return None

    def ext_delattr(self, interp, st, args, kwargs, frame, node):
        a = [x for x in args if not isinstance(x, tuple)]
        if isinstance(a[0], Sym) and "specinst" in a[0].tags:
            site = interp.site(frame, node)
            if self.setattr_mode == "inline" and self._inl < 1:
                self._inl += 1
                try:
                    return interp.call_function(st, FuncV(self.delattr_closure, None), a, {}, frame, node)
                finally:
                    self._inl -= 1
            # no may-raise marker: a missing attribute raises before anything is written, and
            # re-installing a declared default cannot fail its type check (assumption: defaults conform)
        return None

    def ext_deepcopy(self, interp, st, v, site, shallow):
        if self.deepcopy_mode == "inline" and isinstance(v, Sym) and "specinst" in v.tags and not shallow:
            memo = Ref(st.alloc(site + ":memo", DictO({}, None, FRESH)))
            st.emit("CP", vrepr(v), "spec", site)
            return interp.call_function(st, FuncV(self.deepcopy_impl, None), [v, memo], {}, None, None)
        return None

    def install(self, cfg: Config):
        cfg.attr_hooks.append(self.attr_hook)
        cfg.call_hooks.append(self.call_hook)
        cfg.ext_models["builtins.getattr"] = self._chain(self.ext_getattr_raw)
        cfg.ext_models["$rawset"] = self.ext_rawset
        cfg.ext_models["$rawdel"] = self.ext_rawdel
        cfg.ext_models["builtins.setattr"] = self.ext_setattr
        cfg.ext_models["builtins.delattr"] = self.ext_delattr
        cfg.ext_models["$deepcopy"] = self.ext_deepcopy

    @staticmethod
    def _chain(f):
        return f


# =========================================================================
#                         assumption environments
# =========================================================================
def assumption_env(frozen=None, do_not_copy=None, initializing=False, attr_do_not_copy=None,
                   extra=None):
    """fact_defaults callback fixing the flags a rule quantifies over."""
    extra = dict(extra or {})

    def fd(key):
        if key in extra:
            return extra[key]
        if key[0] == "truthy" and isinstance(key[1], tuple):
            tok = key[1]
            last2 = tok[-2:]
            if last2 == (".__spec_class__", ".frozen") or tok[-1:] == (".frozen",) and ".__spec_class__" in tok:
                return frozen
            if last2 == (".__spec_class__", ".do_not_copy"):
                return do_not_copy
            if tok[-1] == ".__spec_class_initializing__":
                return initializing
            if tok[-1] == ".do_not_copy" and tok[-2] != ".__spec_class__":
                return attr_do_not_copy
            if tok[-1] == ".__spec_class__":
                return True
        if key[0] == "in" and isinstance(key[1], str) and "__spec_class_initializing__" in key[1]:
            return False    # the initialising flag is never a managed attribute
        if key[0] == "hasattr" and isinstance(key[1], tuple):
            if key[2] == "__spec_class__" and key[1][-1:] != (".__class__",):
                return True if _is_inst_tok(key[1]) else None
            if key[2] == "__spec_class_initializing__":
                return initializing
        return None
    return fd


def _is_inst_tok(tok):
    t = strip_copy(tok)
    return t in (("self",), ("obj",), ("instance",))


def helper_config(p: Program, helpers, family=None, env=None, setattr_mode="event",
                  deepcopy_mode="fresh", stubs=None, watch=()) -> Config:
    cfg = Config()
    cfg.stubs = dict(DEFAULT_STUBS)
    if stubs:
        for k, v in stubs.items():
            if v is None:
                cfg.stubs.pop(k, None)
            else:
                cfg.stubs[k] = v
    proto = SpecProtocol(p, helpers, mutator_family=family, setattr_mode=setattr_mode,
                         deepcopy_mode=deepcopy_mode)
    proto.install(cfg)
    cfg.fact_defaults.append(env or assumption_env())
    cfg.watch_calls = set(watch)
    return cfg


def recv_sym():
    return Sym(("self",), {RECV}, tags={"specinst", "nonsentinel"})


def arg_sym(name, **kw):
    return Sym((name,), {ARG}, **kw)


def attr_spec_sym():
    return Sym(("attr_spec",), {CLS})


def kwargs_dict(st: State, name: str, nonempty: Optional[bool], prov=ARG):
    """A **attrs / **attr_transforms dictionary: empty, or unknown keys with ARG values."""
    if nonempty is False:
        d = DictO({}, None, FRESH)
    else:
        d = DictO({}, Sym((name, "[]"), {prov}), FRESH)
    return d
