"""Call evaluation: in-repo functions (inlined), classes, partials, opaque values."""
from __future__ import annotations

import ast
from typing import Dict, List, Optional

from .common import (FALSE, MUTATING_METHODS, NONE, PURE_METHODS, RAISING_METHODS, TRUE,
                     Frame, Outcome)
from .exprs import SuperV, content_prov_of, prov_of
from .model import AnalysisError, ClassInfo, _dotted
from .state import State
from .values import (ARG, CLS, FRESH, GLOBAL, IMM, RECV, USER, BoundV, ClassV, Const,
                     DictO, Env, ExcV, ExtV, FuncV, Inst, ListO, ModuleV, PartialO, Ref,
                     Sentinel, Sym, TupleV, V, vkey, vrepr)

EXC_NAMES = {"Exception", "BaseException", "TypeError", "ValueError", "KeyError", "IndexError",
             "AttributeError", "RuntimeError", "RecursionError", "LookupError", "ImportError",
             "NotImplementedError", "StopIteration"}


class CallMixin:
    # ------------------------------------------------------------ e_Call
    def e_Call(self, e, st, frame):
        site = self.site(frame, e)
        # zero-arg super()
        if isinstance(e.func, ast.Name) and e.func.id == "super" and not e.args:
            env = st.heap[frame.env]
            fi = frame.fi
            params = fi.node.args.posonlyargs + fi.node.args.args if not fi.is_lambda else []
            self_v = env.vars.get(params[0].arg) if params else None
            return self.ok(st, SuperV(frame.cls_ctx or fi.cls, self_v))

        arg_exprs = [a.value if isinstance(a, ast.Starred) else a for a in e.args]
        star = [isinstance(a, ast.Starred) for a in e.args]
        kw_exprs = [k.value for k in e.keywords]

        def with_callee(s, callee_thunk):
            def cont(s2, vs):
                pos = vs[:len(arg_exprs)]
                kws = vs[len(arg_exprs):]
                args, kwargs, rest_kw = [], {}, None
                for v, is_star in zip(pos, star):
                    if is_star:
                        k, info = self.iter_items(s2, v, frame, e)
                        if k == "known":
                            args.extend(info)
                        else:
                            args.append(("*", v))
                    else:
                        args.append(v)
                for k, v in zip(e.keywords, kws):
                    if k.arg is not None:
                        kwargs[k.arg] = v
                    else:
                        if isinstance(v, Ref) and isinstance(s2.heap.get(v.addr), DictO):
                            o = s2.heap[v.addr]
                            for kk, vv in o.items.items():
                                kwargs[kk] = vv
                            if o.rest is not None:
                                rest_kw = o.rest
                        elif isinstance(v, Sym):
                            rest_kw = Sym(v.tok + ("[]",), v.content_prov())
                        elif isinstance(v, (Const, Sentinel)):
                            pass
                        else:
                            raise AnalysisError(f"** of {v!r} at {site}")
                if rest_kw is not None:
                    kwargs["**"] = rest_kw
                return callee_thunk(s2, args, kwargs)
            return self.eval_many(arg_exprs + kw_exprs, s, frame, cont)

        if isinstance(e.func, ast.Attribute):
            def cont_recv(s, recv):
                with self.pinned(recv):
                    return with_callee(s, lambda s2, a, k: self.call_attr(s2, recv, e.func.attr, a, k, frame, e))
            return self._ev(e.func.value, st, frame, cont_recv)

        def cont_fn(s, fv):
            with self.pinned(fv):
                return with_callee(s, lambda s2, a, k: self.call_value(s2, fv, a, k, frame, e))
        return self._ev(e.func, st, frame, cont_fn)

    # -------------------------------------------------------- attribute call
    def call_attr(self, st, recv, name, args, kwargs, frame, node) -> List[Outcome]:
        site = self.site(frame, node)
        name = self._mangle(frame, name)
        for h in self.cfg.call_hooks:
            r = h(self, st, ("attr", recv, name), args, kwargs, frame, node)
            if r is not None:
                return r
        if isinstance(recv, Sym) and (self.sym_class(recv.tok) is None
                                      or not self.cfg.sym_method_filter(self.sym_class(recv.tok), name)):
            for h in self.cfg.attr_hooks:
                r = h(self, st, recv, name, site)
                if r is not None:
                    if isinstance(r, list):
                        outs = []
                        for o in r:
                            outs.extend(self.call_value(o.state, o.value, args, kwargs, frame, node)
                                        if o.kind == "ok" else [o])
                        return outs
                    return self.call_value(st, r, args, kwargs, frame, node)
            return self.opaque_method(st, recv, name, args, kwargs, frame, node)
        outs = []
        for o in self.load_attr(st, recv, name, frame, node):
            if o.kind != "ok":
                outs.append(o)
            else:
                outs.extend(self.call_value(o.state, o.value, args, kwargs, frame, node))
        return outs

    def call_method(self, st, recv, name, args, kwargs, frame, node) -> List[Outcome]:
        return self.call_attr(st, recv, name, args, kwargs, frame, node)

    def opaque_method(self, st, recv: Sym, name, args, kwargs, frame, node) -> List[Outcome]:
        """A method call on an opaque object, classified by name."""
        site = self.site(frame, node)
        plain_args = [a for a in args if not isinstance(a, tuple)]
        if name in MUTATING_METHODS:
            outs = []
            if name in RAISING_METHODS:
                r = self._implicit_raise(st, frame, node, {"IndexError", "KeyError", "ValueError", "LookupError"}, name)
                if r and r[-1] is None:
                    return r[:-1]
                outs.extend(r)
                st.emit("MR", name + ":" + vrepr(recv), site)
            val = plain_args[-1] if plain_args else None
            self.w_event(st, "method:" + name, recv, ",".join(vrepr(a_) for a_ in plain_args), val, site)
            if name in ("pop", "popitem", "setdefault"):
                res = Sym(recv.tok + (f".{name}()",), recv.content_prov())
            else:
                res = NONE
            outs.append(Outcome("ok", st, res))
            return outs
        if name in PURE_METHODS:
            outs = []
            if self.cfg.emit_reads:
                st.emit("RD", name, vrepr(recv), tuple(vrepr(a) for a in plain_args), site)
            if name in RAISING_METHODS:
                r = self._implicit_raise(st, frame, node, {"IndexError", "KeyError", "ValueError", "LookupError"}, name)
                if r and r[-1] is None:
                    return r[:-1]
                outs.extend(r)
            prov = recv.content_prov()
            tags = set()
            if name == "items":
                tags = {"pairs"}
            if name in ("get",) and len(plain_args) >= 1:
                # dict.get(key, default): present -> child, absent -> default
                default = plain_args[1] if len(plain_args) > 1 else kwargs.get("default", NONE)
                key = ("in", repr(self.ident_key(plain_args[0])), repr(("tok", recv.tok)))
                for s2, present in self.decide(st, key):
                    if present:
                        outs.append(Outcome("ok", s2, Sym(recv.tok + ("[" + vrepr(plain_args[0]) + "]",), prov,
                                                          tags={"nonsentinel"} if isinstance(default, Sentinel) else ())))
                    else:
                        outs.append(Outcome("ok", s2, default))
                return outs
            if name == "copy":
                res = Sym(recv.tok + (".copy()",), {FRESH}, inner=prov)
            elif name in ("index", "count", "__len__"):
                res = Sym(recv.tok + (f".{name}({','.join(vrepr(a) for a in plain_args)})",), {IMM})
            elif name in ("startswith", "endswith", "isidentifier", "issubset", "issuperset", "isdisjoint", "__contains__"):
                outs2 = []
                for s2, b in self.decide(st, ("pred", name, recv.tok, tuple(vrepr(a) for a in plain_args))):
                    outs2.append(Outcome("ok", s2, Const(b)))
                return outs + outs2
            else:
                res = Sym(recv.tok + (f".{name}()",), prov, tags=tags)
            outs.append(Outcome("ok", st, res))
            return outs
        if name == "__new__":
            return self.ok(st, Sym(("new", site), {FRESH}, tags={"nonsentinel"}))
        # anything else: a callable we cannot see (user callback / foreign method)
        return self.user_call(st, Sym(recv.tok + ("." + name,), recv.content_prov()), name, args, kwargs, frame, node)

    def arg_summary(self, st, args, kwargs):
        """((position/keyword, provenance...), ...) of the non-immutable arguments of an opaque call."""
        out = []
        from .exprs import content_prov_of
        def one(name, v):
            if isinstance(v, tuple):
                v = v[1]
            if isinstance(v, Ref) and isinstance(st.heap.get(v.addr), DictO):
                o = st.heap[v.addr]
                for k, x in o.items.items():
                    one(f"{name}[{k if not isinstance(k, tuple) else '/'.join(map(str, k[1:]))}]", x)
                if o.rest is not None:
                    one(f"{name}[*]", o.rest)
                return
            p = prov_of(st, v)
            if (p - {IMM, CLS}) or getattr(self.cfg, "arg_summary_all", False):
                out.append((str(name), vrepr(v)) + tuple(sorted(p)))
        for i, v in enumerate(args):
            one(i, v)
        for k, v in kwargs.items():
            one(k, v)
        return tuple(out)

    def user_call(self, st, callee: V, label, args, kwargs, frame, node) -> List[Outcome]:
        site = self.site(frame, node)
        ctor = isinstance(callee, Sym) and callee.tok[-1] in getattr(self.cfg, "constructor_attrs", ())
        if ctor:
            label = "construct"
        cname = vrepr(callee)
        while cname.endswith("/.__origin__"):
            cname = cname[: -len("/.__origin__")]
        if self.cfg.guard_pred:
            st.emit("U", cname, label, self.arg_summary(st, args, kwargs), self.guards(st), site)
        else:
            st.emit("U", cname, label, self.arg_summary(st, args, kwargs), site)
        rprov = {FRESH} if ctor else {USER}
        if not ctor and getattr(self.cfg, "callback_may_alias", False):
            # an opaque callback may hand back (part of) what it was given
            from .exprs import prov_of
            for a_ in list(args) + list(kwargs.values()):
                if not isinstance(a_, tuple) and a_ is not None:
                    rprov |= (set(prov_of(st, a_)) & {RECV, ARG})
        res = Sym(("call", "construct" if ctor else cname, site), rprov,
                  tags={"nonsentinel"} if ctor else ())
        outs = []
        if self.cfg.user_may_raise:
            key = ("uraise", cname, site)
            v = self.fact(st, key)
            if v is None:
                s2 = st.clone()
                self.tick()
                self.set_fact(s2, key, True)
                self.set_fact(st, key, False)
                s2.emit("UR", cname, site)
                outs.append(Outcome("exc", s2, ExcV("?", site)))
            elif v is True:
                st.emit("UR", cname, site)
                return [Outcome("exc", st, ExcV("?", site))]
        outs.append(Outcome("ok", st, res))
        return outs

    # ------------------------------------------------------------ call_value
    def call_value(self, st, fv, args, kwargs, frame, node) -> List[Outcome]:
        site = self.site(frame, node)
        self.call_sites.add(site)
        for h in self.cfg.call_hooks:
            r = h(self, st, ("value", fv), args, kwargs, frame, node)
            if r is not None:
                return r
        if isinstance(fv, FuncV):
            return self.call_function(st, fv, args, kwargs, frame, node)
        if isinstance(fv, BoundV):
            if isinstance(fv.func, FuncV):
                cls_ctx = fv.func.fi.cls
                return self.call_function(st, fv.func, [fv.self_v] + list(args), kwargs, frame, node, cls_ctx=cls_ctx)
            if isinstance(fv.func, ExtV):
                return self.ext.call_bound(self, st, fv.self_v, fv.func.name, args, kwargs, frame, node)
        if isinstance(fv, ClassV):
            return self.instantiate(st, fv.ci, args, kwargs, frame, node)
        if isinstance(fv, Ref):
            o = st.heap.get(fv.addr)
            if isinstance(o, PartialO):
                kw = dict(o.kwargs)
                kw.update(kwargs)
                return self.call_value(st, o.func, list(o.args) + list(args), kw, frame, node)
            if isinstance(o, Inst):
                return self.call_method(st, fv, "__call__", args, kwargs, frame, node)
        if isinstance(fv, ExtV):
            return self.ext.call_ext(self, st, fv.name, args, kwargs, frame, node)
        if isinstance(fv, Sym):
            return self.user_call(st, fv, "call", args, kwargs, frame, node)
        if isinstance(fv, Sentinel):
            return self.ok(st, fv)   # MISSING() is MISSING
        raise AnalysisError(f"call of {fv!r} at {site}")

    # --------------------------------------------------------- call_function
    def find_stub(self, qualname):
        if qualname in self._stub_cache:
            return self._stub_cache[qualname]
        h = None
        base = qualname.split("#")[0]
        for suffix, handler in self.cfg.stubs.items():
            if base == suffix or base.endswith(":" + suffix) or base.endswith("." + suffix):
                h = handler
                break
        self._stub_cache[qualname] = h
        return h

    def call_function(self, st, fv: FuncV, args, kwargs, frame, node, cls_ctx=None) -> List[Outcome]:
        fi = fv.fi
        site = self.site(frame, node) if frame is not None else "<entry>"
        stub = self.find_stub(fi.qualname)
        if stub is not None and self.depth == 0 and getattr(self, "_entry_qual", None) == fi.qualname:
            stub = None      # the entry point itself is interpreted; only its (recursive) callees are summarised
        if stub is not None:
            r = stub(self, st, args, kwargs, frame, node)
            if r is not None:
                return r
        for w in self.cfg.watch_calls:
            if fi.qualname.split("#")[0].endswith(w):
                st.emit("CALL", w, site)
        if self.depth >= self.cfg.max_depth:
            raise AnalysisError(f"inlining depth {self.depth} exceeded at {site} calling {fi.qualname}")
        rec = getattr(self, "_stack", [])
        if rec.count(fi.qualname) >= 2:
            st.note(f"recursion cut at {fi.qualname}")
            return self.ok(st, Sym(("rec", fi.qualname), {IMM}))
        self._stack = rec + [fi.qualname]
        self.depth += 1
        self.functions_entered.add(fi.qualname)
        try:
            return self._run_function(st, fv, args, kwargs, frame, node, cls_ctx or fi.cls)
        finally:
            self.depth -= 1
            self._stack = rec

    def _run_function(self, st, fv, args, kwargs, caller_frame, node, cls_ctx):
        fi = fv.fi
        a = fi.node.args
        env = Env({}, fv.env, fi)
        addr = st.alloc(f"env:{fi.qualname}", env)
        newframe = Frame(fi, addr, cls_ctx)
        pos_params = [p.arg for p in a.posonlyargs + a.args]
        pos_defaults = a.defaults
        kwonly = [p.arg for p in a.kwonlyargs]
        site = self.site(caller_frame, node) if caller_frame is not None else fi.qualname
        kwargs = dict(kwargs)
        rest_kw = kwargs.pop("**", None)
        args = list(args)
        star_unknown = [x for x in args if isinstance(x, tuple)]
        args = [x for x in args if not isinstance(x, tuple)]
        bound = {}
        for i, v in enumerate(args):
            if i < len(pos_params):
                bound[pos_params[i]] = v
            elif a.vararg:
                bound.setdefault("*extra", []).append(v)
            else:
                return [self.exc(st, "TypeError", site)]
        extra_kw = {}
        for k, v in kwargs.items():
            if k in pos_params or k in kwonly:
                if k in bound:
                    return [self.exc(st, "TypeError", site)]
                bound[k] = v
            elif a.kwarg:
                extra_kw[k] = v
            else:
                return [self.exc(st, "TypeError", site)]
        # defaults
        pending_defaults = []
        ndef = len(pos_defaults)
        for i, name in enumerate(pos_params):
            if name not in bound:
                j = i - (len(pos_params) - ndef)
                if j >= 0:
                    pending_defaults.append((name, pos_defaults[j]))
                elif star_unknown:
                    bound[name] = Sym(("starargs", name), content_prov_of(st, star_unknown[0][1]))
                elif rest_kw is not None:
                    bound[name] = rest_kw
                else:
                    return [self.exc(st, "TypeError", site)]
        for name, d in zip(kwonly, a.kw_defaults):
            if name not in bound:
                if d is not None:
                    pending_defaults.append((name, d))
                elif rest_kw is not None:
                    bound[name] = rest_kw
                else:
                    return [self.exc(st, "TypeError", site)]
        if a.vararg:
            extra = bound.pop("*extra", [])
            if star_unknown:
                la = st.alloc(site + ":varargs", ListO(extra, Sym(("starargs",), content_prov_of(st, star_unknown[0][1])), FRESH))
                bound[a.vararg.arg] = Ref(la)
            else:
                bound[a.vararg.arg] = TupleV(extra)
        if a.kwarg:
            d = DictO(extra_kw, rest_kw, FRESH)
            da = st.alloc(f"kwargs:{fi.qualname}", d)
            bound[a.kwarg.arg] = Ref(da)
        env.vars.update(bound)
        # evaluate defaults in the defining scope (they are constants / sentinels here)
        states = [st]
        for name, dexpr in pending_defaults:
            nxt = []
            for s in states:
                defframe = Frame(fi, s.alloc(f"defenv:{fi.qualname}", Env({}, fv.env, fi)), cls_ctx)
                for o in self.eval(dexpr, s, defframe):
                    if o.kind == "ok":
                        o.state.heap[addr].vars[name] = o.value
                        o.state.heap.pop(defframe.env, None)
                        nxt.append(o.state)
            states = nxt
        outs = []
        if fi.is_lambda:
            for s in states:
                for o in self.eval(fi.node.body, s, newframe):
                    self._pop_env(o.state, addr, o.value if o.kind == "ok" else None)
                    outs.append(o)
            return outs
        for o in self.exec_block(fi.node.body, states, newframe):
            if o.kind == "return":
                self._pop_env(o.state, addr, o.value)
                outs.append(Outcome("ok", o.state, o.value))
            elif o.kind == "next":
                self._pop_env(o.state, addr, None)
                outs.append(Outcome("ok", o.state, NONE))
            elif o.kind == "exc":
                self._pop_env(o.state, addr, None)
                outs.append(o)
            else:
                raise AnalysisError(f"{o.kind} escaped function {fi.qualname}")
        if len(outs) > 1 and not self.cfg.record_decisions:
            from .state import merge_states
            for o in outs:
                with self.pinned(o.value):
                    self.gc(o.state)
            merged = merge_states([(o.state, o.kind, o.value) for o in outs], guard_pred=self.cfg.guard_pred)
            outs = [Outcome(k, s, v) for (s, k, v) in merged]
        return outs

    def _pop_env(self, st, addr, retval):
        """Drop a finished frame unless a closure captured it."""
        captured = False

        def refs_env(v):
            if isinstance(v, FuncV) and v.env == addr:
                return True
            if isinstance(v, BoundV):
                return refs_env(v.func) or refs_env(v.self_v)
            if isinstance(v, TupleV):
                return any(refs_env(i) for i in v.items)
            return False
        if retval is not None and refs_env(retval):
            captured = True
        if not captured:
            for a2, o in st.heap.items():
                if a2 == addr:
                    continue
                from .state import _children
                if isinstance(o, Env) and o.parent == addr:
                    captured = True
                    break
                if any(refs_env(c) for c in _children(o)):
                    captured = True
                    break
        if not captured:
            st.heap.pop(addr, None)
            # drop kwargs dicts / comp envs only referenced from the dead frame lazily: harmless to keep
            self._gc(st)

    def _gc(self, st):
        pass

    # ------------------------------------------------------------ classes
    def is_exception_class(self, ci: ClassInfo) -> bool:
        for c in self.p.mro(ci):
            for b in self.p.class_bases(c):
                if isinstance(b, str) and b.rsplit(".", 1)[-1] in EXC_NAMES:
                    return True
        return False

    def instantiate(self, st, ci: ClassInfo, args, kwargs, frame, node) -> List[Outcome]:
        site = self.site(frame, node)
        if self.is_exception_class(ci):
            return self.ok(st, ExcV(ci.name, site))
        stub = self.find_stub(ci.qualname.split(":")[-1] + ".<new>")
        if stub is not None:
            r = stub(self, st, args, kwargs, frame, node)
            if r is not None:
                return r
        c, new = self.p.lookup_method(ci, "__new__")
        outs = []
        if isinstance(new, list):
            created = self.call_function(st, FuncV(new[0], None), [ClassV(ci)] + list(args), kwargs, frame, node, cls_ctx=c)
        else:
            addr = st.alloc(f"inst:{ci.name}@{site}", Inst(ci, {}, FRESH))
            created = [Outcome("ok", st, Ref(addr))]
        for o in created:
            if o.kind != "ok":
                outs.append(o)
                continue
            obj = o.value
            is_inst = isinstance(obj, Ref) and isinstance(o.state.heap.get(obj.addr), Inst) and \
                self.p.is_subclass(o.state.heap[obj.addr].cls, ci)
            if not is_inst:
                outs.append(o)
                continue
            c2, init = self.p.lookup_method(ci, "__init__")
            if not isinstance(init, list):
                outs.append(o)
                continue
            with self.pinned(obj):
                inits = self.call_function(o.state, FuncV(init[0], None), [obj] + list(args), kwargs, frame, node, cls_ctx=c2)
            for o2 in inits:
                if o2.kind == "ok":
                    outs.append(Outcome("ok", o2.state, obj))
                else:
                    outs.append(o2)
        return outs
