"""Running helper / core entry points under assumption environments."""
from __future__ import annotations

import ast
from typing import Dict, List, Optional, Tuple

from .common import Config, Outcome
from .interp import Interp
from .model import AnalysisError, Program
from .scenarios import (Helper, arg_sym, assumption_env, attr_spec_sym, core_impl, discover,
                        helper_config, recv_sym)
from .state import State
from .values import ARG, CLS, FRESH, IMM, RECV, Const, Sym

HELPER_FAMILIES = ("scalar", "toplevel", "sequence", "mapping", "set")


def all_helpers(H) -> List[Helper]:
    return [h for f in HELPER_FAMILIES for h in H[f]]


def helper_args(h: Helper, shape: str, inplace, if_=True, recv=None):
    """Build (args, kwargs) for a helper implementation.
    shape 'given': every parameter supplied by the caller (non-sentinel ARG symbols,
    unknown **keywords); shape 'default': parameters with defaults omitted."""
    ps = h.params()
    args = [attr_spec_sym()] if h.bound_attr_spec else []
    args.append(recv or recv_sym())
    kwargs = {}
    npos = len(ps["positional"])
    ndef = len(ps["pos_defaults"])
    for i, name in enumerate(ps["positional"]):
        has_default = i >= npos - ndef
        if shape in ("default", "kwonly") and has_default:
            continue
        kwargs[name] = arg_sym(name, tags={"nonsentinel"})
    for name, d in zip(ps["kwonly"], ps["kw_defaults"]):
        if name == "_inplace":
            if inplace is not None:
                kwargs[name] = Const(inplace)
            continue
        if name == "_if":
            if if_ is not None:
                kwargs[name] = Const(if_) if isinstance(if_, bool) else if_
            continue
        if shape in ("default", "kwonly") and d is not None:
            continue
        kwargs[name] = arg_sym(name, tags={"nonsentinel"})
    if ps["varkw"] and shape in ("given", "kwonly"):
        kwargs["**"] = Sym((ps["varkw"], "[]"), {ARG})
    return args, kwargs


_CACHE: Dict[tuple, tuple] = {}


def run_helper(p: Program, H, h: Helper, *, inplace=False, if_=True, shape="given",
               frozen=False, do_not_copy=False, initializing=False, attr_do_not_copy=None,
               setattr_mode="event", deepcopy_mode="fresh", stubs=None, watch=(),
               configure=None, extra_facts=None, cache=True) -> Tuple[Interp, List[Outcome]]:
    key = (h.id, inplace, repr(if_), shape, frozen, do_not_copy, initializing, attr_do_not_copy,
           setattr_mode, deepcopy_mode, tuple(sorted((stubs or {}).keys())), tuple(watch),
           getattr(configure, "__name__", None), repr(sorted((extra_facts or {}).items())))
    if cache and key in _CACHE:
        return _CACHE[key]
    env = assumption_env(frozen=frozen, do_not_copy=do_not_copy, initializing=initializing,
                         attr_do_not_copy=attr_do_not_copy, extra=extra_facts)
    fam = h.family if h.family in ("sequence", "mapping", "set") else None
    cfg = helper_config(p, H, family=fam, env=env, setattr_mode=setattr_mode,
                        deepcopy_mode=deepcopy_mode, stubs=stubs, watch=watch)
    cfg.constructor_attrs = {".constructor", ".item_constructor", ".item_spec_type", ".__origin__"}
    if configure:
        configure(cfg)
    it = Interp(p, cfg)
    args, kwargs = helper_args(h, shape, inplace, if_)
    outs = it.run(h.impl, args, kwargs)
    if cache:
        _CACHE[key] = (it, outs)
    return it, outs


def run_function(p: Program, H, fi, args, kwargs=None, *, family=None, closure=None, frozen=False,
                 do_not_copy=False, initializing=False, attr_do_not_copy=None, setattr_mode="event",
                 deepcopy_mode="fresh", stubs=None, watch=(), configure=None, extra_facts=None,
                 state: Optional[State] = None):
    env = assumption_env(frozen=frozen, do_not_copy=do_not_copy, initializing=initializing,
                         attr_do_not_copy=attr_do_not_copy, extra=extra_facts)
    cfg = helper_config(p, H, family=family, env=env, setattr_mode=setattr_mode,
                        deepcopy_mode=deepcopy_mode, stubs=stubs, watch=watch)
    cfg.constructor_attrs = {".constructor", ".item_constructor", ".item_spec_type", ".__origin__"}
    if configure:
        configure(cfg)
    it = Interp(p, cfg)
    outs = it.run(fi, args, kwargs or {}, closure=closure, state=state)
    return it, outs


def events(o: Outcome, *kinds):
    return [e for e in o.state.trace if e[0] in kinds]


def describe_path(o: Outcome, limit=14):
    out = []
    for e in o.state.trace:
        if e[0] in ("W", "R", "U", "UR", "INV", "CP", "MR", "RR", "CHK", "CALL"):
            out.append(" ".join(str(x) for x in e if x not in ((), None)))
    return out[-limit:]
