"""Effect models of builtins / stdlib / third-party callables the package uses."""
from __future__ import annotations

import ast
from typing import List

from .common import FALSE, MUTATING_METHODS, NONE, PURE_METHODS, TRUE, Frame, Outcome
from .model import AnalysisError, ClassInfo
from .values import (ARG, CLS, FRESH, GLOBAL, IMM, RECV, USER, BoundV, ClassV, Const, DictO,
                     Env, ExcV, ExtV, FuncV, Inst, ListO, ModuleV, PartialO, Ref, Sentinel, Sym,
                     TupleV, V, vkey, vrepr)

EXC_BUILTINS = {"Exception", "BaseException", "TypeError", "ValueError", "KeyError", "IndexError",
                "AttributeError", "RuntimeError", "RecursionError", "LookupError", "ImportError",
                "NotImplementedError", "StopIteration", "DeprecationWarning", "UserWarning", "Warning"}

IMM_RESULT = {
    "builtins.repr", "builtins.str", "builtins.format", "builtins.id", "builtins.print",
    "builtins.int", "builtins.float", "builtins.bool", "builtins.min", "builtins.max",
    "builtins.sum", "builtins.abs", "builtins.ord", "builtins.chr", "builtins.round",
    "textwrap.dedent", "textwrap.indent", "textwrap.wrap", "inspect.cleandoc",
    "ast.literal_eval", "builtins.exec", "warnings.simplefilter", "builtins.vars",
}
IMMUTABLE_ATOMS = {"builtins.bool", "builtins.int", "builtins.float", "builtins.complex", "builtins.str",
                   "builtins.bytes", "builtins.type", "types.ModuleType", "builtins.NoneType"}
PRED = {
    "inspect.ismethod", "inspect.isfunction", "inspect.isclass", "inspect.isdatadescriptor",
    "inspect.ismethoddescriptor", "inspect.isbuiltin", "builtins.callable", "builtins.issubclass",
    "dataclasses.is_dataclass",
}


def _plain(args):
    return [a for a in args if not isinstance(a, tuple)]


def _prov_union(interp, st, vals):
    from .exprs import content_prov_of
    ps = set()
    for v in vals:
        if isinstance(v, (Sym, Ref)):
            ps |= content_prov_of(st, v)
    ps.discard(IMM)
    return ps or {IMM}


def call_ext(interp, st, name, args, kwargs, frame, node) -> List[Outcome]:
    site = interp.site(frame, node)
    ov = interp.cfg.ext_models.get(name)
    if ov is not None:
        r = ov(interp, st, args, kwargs, frame, node)
        if r is not None:
            return r
    a = _plain(args)
    short = name.rsplit(".", 1)[-1]
    ok = interp.ok

    if name.startswith("builtins.") and short in EXC_BUILTINS:
        return ok(st, ExcV(short, site))
    if name == "builtins.getattr":
        return _getattr(interp, st, a, frame, node)
    if name == "builtins.setattr":
        return _as_none(_setattr(interp, st, a, frame, node))
    if name == "builtins.delattr":
        return _as_none(_delattr(interp, st, a, frame, node))
    if name == "builtins.hasattr":
        return _hasattr(interp, st, a, frame, node)
    if name == "builtins.isinstance":
        return [Outcome("ok", s, Const(b)) for s, b in isinstance_(interp, st, a[0], a[1], frame, node)]
    if name == "builtins.bool" and len(a) == 1 and not kwargs:
        return [Outcome("ok", s, Const(b)) for s, b in interp.truth(st, a[0])]      # keeps the truth facts of the operand
    if name in PRED:
        key = ("pred", name, tuple(repr(interp.ident_key(x)) for x in a))
        if name == "builtins.callable" and isinstance(a[0], (FuncV, BoundV, ClassV)):
            return ok(st, TRUE)
        if name == "builtins.callable" and isinstance(a[0], Ref) and isinstance(st.heap.get(a[0].addr), PartialO):
            return ok(st, TRUE)
        if name == "inspect.isfunction" and isinstance(a[0], FuncV):
            return ok(st, TRUE)
        if name in ("inspect.ismethod", "inspect.isfunction", "inspect.isclass", "inspect.isdatadescriptor") and \
                isinstance(a[0], (Const, Sentinel)):
            return ok(st, Const(name == "inspect.isclass" and isinstance(a[0], Sentinel)))
        if name == "inspect.ismethod" and isinstance(a[0], BoundV):
            return ok(st, TRUE)
        return [Outcome("ok", s, Const(b)) for s, b in interp.decide(st, key)]
    if name == "builtins.len":
        v = a[0]
        if isinstance(v, TupleV):
            return ok(st, Const(len(v.items)))
        if isinstance(v, Ref):
            o = st.heap.get(v.addr)
            if isinstance(o, (ListO, DictO)) and o.rest is None:
                return ok(st, Const(len(o.items)))
            if isinstance(o, Inst):
                return interp.call_method(st, v, "__len__", [], {}, frame, node)
        if isinstance(v, Sym) and interp.sym_class(v.tok) is not None:
            return interp.call_method(st, v, "__len__", [], {}, frame, node)
        return ok(st, Sym(("len", vrepr(v)), {IMM}))
    if name == "builtins.range":
        return ok(st, Sym(("range",) + tuple(vrepr(x) for x in a), {IMM}))
    if name == "builtins.enumerate":
        v = a[0]
        k, info = interp.iter_items(st, v, frame, node)
        if k == "known":
            return ok(st, TupleV([TupleV([Const(i), it]) for i, it in enumerate(info)]))
        if isinstance(v, Sym):
            return ok(st, Sym(v.tok + ("enum",), v.content_prov(), tags={"pairs", "enum"}))
        return ok(st, Sym(("enum", vrepr(v)), _prov_union(interp, st, [v]), tags={"pairs", "enum"}))
    if name in ("builtins.reversed", "builtins.iter", "builtins.sorted"):
        v = a[0]
        k, info = interp.iter_items(st, v, frame, node)
        if k == "known":
            items = list(reversed(info)) if short == "reversed" else list(info)
            return ok(st, TupleV(items))
        if isinstance(v, Sym):
            return ok(st, Sym(v.tok + (short,), v.content_prov(), tags=v.tags & {"pairs"}))
        if k == "inst":
            return interp.call_method(st, v, "__iter__" if short != "reversed" else "__reversed__", [], {}, frame, node)
        return ok(st, Sym((short, vrepr(v)), _prov_union(interp, st, [v])))
    if name == "builtins.zip":
        return ok(st, Sym(("zip", site), _prov_union(interp, st, a), tags={"pairs"}))
    if name in ("builtins.list", "builtins.set", "builtins.tuple", "builtins.frozenset"):
        kind = "set" if short in ("set", "frozenset") else "list"
        if not a:
            return ok(st, Ref(st.alloc(site + ":" + short, ListO([], None, FRESH, kind))))
        v = a[0]
        k, info = interp.iter_items(st, v, frame, node)
        if k == "known":
            if short == "tuple":
                return ok(st, TupleV(info))
            return ok(st, Ref(st.alloc(site + ":" + short, ListO(list(info), None, FRESH, kind))))
        if isinstance(v, Sym):
            return ok(st, Sym(v.tok + (short + "()",), {FRESH}, inner=v.content_prov()))
        if k == "semi":
            known, fac = info
            return ok(st, Ref(st.alloc(site + ":" + short, ListO(list(known), fac(0), FRESH, kind))))
        return ok(st, Sym((short + "()", vrepr(v)), {FRESH}, inner=_prov_union(interp, st, [v])))
    if name == "builtins.dict":
        d = DictO({}, None, FRESH)
        if a:
            interp._dict_update(st, d, a[0])
        for k, v in kwargs.items():
            if k != "**":
                d.items[k] = v
        return ok(st, Ref(st.alloc(site + ":dict", d)))
    if name == "builtins.type":
        if len(a) == 1:
            v = a[0]
            if isinstance(v, Ref) and isinstance(st.heap.get(v.addr), Inst):
                return ok(st, ClassV(st.heap[v.addr].cls))
            if isinstance(v, Sym):
                ci = interp.sym_class(v.tok)
                if ci is not None and "exactclass" in v.tags:
                    return ok(st, ClassV(ci))
                return ok(st, interp.child_sym(v, "__class__"))
            return ok(st, Sym(("type", vrepr(v)), {CLS}))
        return ok(st, Sym(("newtype", site), {CLS}))
    if name in ("builtins.any", "builtins.all"):
        v = a[0] if a else None
        if isinstance(v, Ref) and isinstance(st.heap.get(v.addr), ListO) and st.heap[v.addr].rest is None \
                and all(isinstance(i, Const) for i in st.heap[v.addr].items):
            vals = [bool(i.value) for i in st.heap[v.addr].items]
            return ok(st, Const(any(vals) if short == "any" else all(vals)))
        if isinstance(v, TupleV) and all(isinstance(i, Const) for i in v.items):
            vals = [bool(i.value) for i in v.items]
            return ok(st, Const(any(vals) if short == "any" else all(vals)))
        if isinstance(v, Ref) and isinstance(st.heap.get(v.addr), ListO):
            # a comprehension over an unknown iterable: `rest` is the verdict of the representative element(s)
            # decided on this path (the facts of this path say such an element exists)
            lo = st.heap[v.addr]
            parts = list(lo.items) + ([lo.rest] if lo.rest is not None else [])
            if parts and all(isinstance(i, Const) for i in parts):
                vals = [bool(i.value) for i in parts]
                return ok(st, Const(any(vals) if short == "any" else all(vals)))
        return [Outcome("ok", s, Const(b)) for s, b in interp.decide(st, (short, site))]
    if name == "builtins.hash":
        outs = []
        r = interp._implicit_raise(st, frame, node, {"TypeError"}, "hash")
        if r and r[-1] is None:
            return r[:-1]
        outs.extend(r)
        outs.append(Outcome("ok", st, Sym(("hash", vrepr(a[0])), {IMM})))
        return outs
    if name == "builtins.object":
        return ok(st, Sym(("object", site), {FRESH}))
    if name == "builtins.super":
        from .exprs import SuperV
        cls = a[0].ci if isinstance(a[0], ClassV) else None
        return ok(st, SuperV(cls, a[1] if len(a) > 1 else None))
    if name in ("copy.deepcopy", "copy.copy"):
        shallow = short == "copy"
        if not shallow and len(a) > 1:
            m = a[1]
            if isinstance(m, Ref) and isinstance(st.heap.get(m.addr), DictO) and \
                    (st.heap[m.addr].items or st.heap[m.addr].rest is not None):
                shallow = True      # a pre-seeded memo makes the "copy" share the seeded objects
        return deepcopy_model(interp, st, a[0], site, shallow=shallow)
    if name == "functools.partial":
        kw = {k: v for k, v in kwargs.items()}
        return ok(st, Ref(st.alloc(site + ":partial", PartialO(a[0], a[1:], kw))))
    if name == "functools.reduce":
        return _reduce(interp, st, a, frame, node)
    if name == "types.MethodType":
        if isinstance(a[0], FuncV):
            return ok(st, BoundV(a[1], a[0]))
        return ok(st, Sym(("method", vrepr(a[0])), _prov_union(interp, st, a)))
    if name in ("threading.RLock", "threading.Lock"):
        return ok(st, Sym(("lock", site), {FRESH}, tags={"lock"}))
    if name == "warnings.warn":
        st.emit("WARN", site)
        return ok(st, NONE)
    if name == "warnings.catch_warnings":
        return ok(st, Sym(("catch_warnings",), {IMM}))
    if name == "lazy_object_proxy.Proxy":
        tok = ("proxy", site)
        st.heap[("proxy", site)] = PartialO(a[0], (), {})
        return ok(st, Sym(tok, {FRESH}, tags={"proxy"}))
    if name == "collections.defaultdict":
        return ok(st, Sym(("defaultdict", site), {FRESH}))
    if name in IMM_RESULT or name.startswith("typing.") or name.startswith("textwrap."):
        return ok(st, Sym(("ext", short), {IMM}))
    if name.startswith("inspect.") or name.startswith("re."):
        return ok(st, Sym(("ext", name, site), {IMM}))
    if name.startswith("const."):
        return ok(st, Sym(("ext", short), {IMM}))
    # unknown external: result may alias its arguments
    interp.unclassified.add(name)
    return ok(st, Sym(("ext", name, site), _prov_union(interp, st, a + list(kwargs.values()))))


def _as_none(outs):
    res = []
    for o in outs:
        if o.kind == "next":
            res.append(Outcome("ok", o.state, NONE))
        else:
            res.append(o)
    return res


def deepcopy_model(interp, st, v, site, shallow=False) -> List[Outcome]:
    hook = interp.cfg.ext_models.get("$deepcopy")
    if hook is not None:
        r = hook(interp, st, v, site, shallow)
        if r is not None:
            return r
    if isinstance(v, (Const, Sentinel, FuncV, ClassV, ModuleV, ExtV, BoundV, TupleV)):
        return [Outcome("ok", st, v)]
    st.emit("CP", vrepr(v), "shallow" if shallow else "deep", site)
    if isinstance(v, Sym):
        keep = {t for t in v.tags if t in ("specinst",) or (isinstance(t, tuple) and t[0] == "checked")}
        if shallow:
            return [Outcome("ok", st, Sym(("shallowcopy",) + v.tok, {FRESH}, inner=v.content_prov(),
                                          tags=keep | {"nonsentinel"}))]
        return [Outcome("ok", st, Sym(("copy",) + v.tok, {FRESH}, tags=keep | {"nonsentinel"}))]
    if isinstance(v, Ref):
        o = st.heap.get(v.addr)
        if o is not None and hasattr(o, "clone") and not isinstance(o, (Env,)):
            c = o.clone()
            if hasattr(c, "prov"):
                c.prov = FRESH
            return [Outcome("ok", st, Ref(st.alloc(site + ":copy", c)))]
    return [Outcome("ok", st, Sym(("copy", vrepr(v)), {FRESH}, tags={"nonsentinel"}))]


def _attr_name(v):
    if isinstance(v, Const) and isinstance(v.value, str):
        return v.value, True
    return "{" + vrepr(v) + "}", False


def has_attr(interp, st, obj, name, const, frame, node):
    """[(state, bool)]"""
    if isinstance(obj, Ref):
        o = st.heap.get(obj.addr)
        if isinstance(o, Inst) and const:
            if name in o.fields:
                return [(st, True)]
            c, m = interp.p.lookup_method(o.cls, name)
            return [(st, m is not None)]
        if isinstance(o, (DictO, ListO, PartialO)):
            return [(st, name in dir(dict) or name in dir(list))]
    if isinstance(obj, ClassV) and const:
        c, m = interp.p.lookup_method(obj.ci, name)
        if m is not None:
            return [(st, True)]
        return interp.decide(st, ("hasattr", ("class", obj.ci.name), name))
    if isinstance(obj, FuncV):
        if const and name in ("__name__", "__doc__", "__call__", "__get__"):
            return [(st, True)]
        return interp.decide(st, ("hasattr", ("fn", obj.fi.qualname), name))
    if isinstance(obj, Sym):
        ci = interp.sym_class(obj.tok)
        if ci is not None and const and interp.p.lookup_method(ci, name)[1] is not None:
            return [(st, True)]
        return interp.decide(st, ("hasattr", obj.tok, name))
    if isinstance(obj, ExtV) and name in ("__origin__", "__args__", "__spec_class__", "__orig_class__") and \
            obj.name.split(".")[0] in ("builtins", "numbers", "typing") and "[" not in obj.name:
        return [(st, False)]
    if isinstance(obj, (Const, Sentinel, TupleV)):
        return [(st, False)] if name.startswith("__spec") or name in ("__origin__", "__args__") else \
            interp.decide(st, ("hasattr", vrepr(obj), name))
    return interp.decide(st, ("hasattr", repr(interp.ident_key(obj)), name))


def _hasattr(interp, st, a, frame, node):
    name, const = _attr_name(a[1])
    return [Outcome("ok", s, Const(b)) for s, b in has_attr(interp, st, a[0], name, const, frame, node)]


def _getattr(interp, st, a, frame, node):
    obj = a[0]
    name, const = _attr_name(a[1])
    site = interp.site(frame, node)
    if len(a) < 3:
        if const:
            return interp.load_attr(st, obj, name, frame, node)
        if isinstance(obj, Sym):
            return interp.ok(st, Sym(obj.tok + ("." + name,), obj.content_prov()))
        return interp.ok(st, Sym(("getattr", vrepr(obj), name), _prov_union(interp, st, [obj])))
    default = a[2]
    outs = []
    if isinstance(obj, (Const, Sentinel, TupleV)):
        return interp.ok(st, default)
    for s, present in has_attr(interp, st, obj, name, const, frame, node):
        if not present:
            outs.append(Outcome("ok", s, default))
        elif const:
            for o in interp.load_attr(s, obj, name, frame, node):
                if o.kind == "exc" and o.value.cls == "AttributeError":
                    outs.append(Outcome("ok", o.state, default))
                else:
                    outs.append(o)
        elif isinstance(obj, Sym):
            outs.append(Outcome("ok", s, Sym(obj.tok + ("." + name,), obj.content_prov())))
        else:
            outs.append(Outcome("ok", s, Sym(("getattr", vrepr(obj), name), _prov_union(interp, s, [obj]))))
    return outs


def _setattr(interp, st, a, frame, node):
    name, const = _attr_name(a[1])
    return interp.store_attr(st, a[0], name, a[2], frame, node, how="setattr()")


def _delattr(interp, st, a, frame, node):
    name, const = _attr_name(a[1])
    return interp.del_attr(st, a[0], name, frame, node, how="delattr()")


def isinstance_(interp, st, v, t, frame, node):
    """[(state, bool)]"""
    if isinstance(t, TupleV):
        pend = [(st, False)]
        for el in t.items:
            nxt = []
            for s, hit in pend:
                if hit:
                    nxt.append((s, True))
                else:
                    nxt.extend(isinstance_(interp, s, v, el, frame, node))
            pend = nxt
        return pend
    tname = vrepr(t)
    if isinstance(v, Const):
        py = {"builtins.bool": bool, "builtins.int": int, "builtins.float": float, "builtins.str": str,
              "builtins.bytes": bytes, "builtins.dict": dict, "builtins.list": list, "builtins.tuple": tuple,
              "builtins.type": type, "builtins.slice": slice, "builtins.set": set}
        if isinstance(t, ExtV) and t.name in py:
            return [(st, isinstance(v.value, py[t.name]))]
        return [(st, False)]
    if isinstance(v, Sentinel):
        return [(st, isinstance(t, ExtV) and t.name == "builtins.type" and not v.truthy)]
    if isinstance(v, (FuncV, BoundV, ModuleV)):
        if isinstance(t, ExtV) and t.name == "types.ModuleType":
            return [(st, isinstance(v, ModuleV))]
        return [(st, False)]
    if isinstance(v, ClassV):
        return [(st, isinstance(t, ExtV) and t.name == "builtins.type")]
    if isinstance(v, ExtV) and v.name.split(".")[0] in ("builtins", "numbers") and isinstance(t, ExtV):
        return [(st, t.name == "builtins.type")]     # a plain external class
    if isinstance(v, ExtV) and v.name == "typing.Any" and isinstance(t, ExtV):
        return [(st, False)]
    if isinstance(v, TupleV):
        return [(st, isinstance(t, ExtV) and t.name == "builtins.tuple")]
    if isinstance(v, ExcV):
        if isinstance(t, (ClassV, ExtV)):
            m = interp.exc_matches(st, v, t)
            if m is not None:
                return [(st, m)]
        return interp.decide(st, ("isinstance", ("exc", v.cls), tname))
    if isinstance(v, Ref):
        o = st.heap.get(v.addr)
        if isinstance(o, Inst):
            if isinstance(t, ClassV):
                return [(st, interp.p.is_subclass(o.cls, t.ci))]
            if isinstance(t, ExtV):
                ext = {b.rsplit(".", 1)[-1] for b in interp.p.external_bases(o.cls)}
                return [(st, t.name.rsplit(".", 1)[-1] in ext)]
            return [(st, False)]
        if isinstance(o, DictO):
            return [(st, isinstance(t, ExtV) and t.name.rsplit(".", 1)[-1] in ("dict", "Mapping", "MutableMapping", "Iterable"))]
        if isinstance(o, ListO):
            names = ("set", "Set", "MutableSet", "Iterable") if o.kind == "set" else ("list", "Sequence", "MutableSequence", "Iterable")
            return [(st, isinstance(t, ExtV) and t.name.rsplit(".", 1)[-1] in names)]
        return [(st, False)]
    if isinstance(v, Sym):
        if isinstance(t, ExtV) and t.name == "lazy_object_proxy.Proxy":
            return [(st, "proxy" in v.tags)]
        if "proxy" in v.tags:
            return [(st, False)]
        ci = interp.sym_class(v.tok)
        if ci is not None and isinstance(t, ClassV):
            if interp.p.is_subclass(ci, t.ci):
                return [(st, True)]
        res = interp.decide(st, ("isinstance", v.tok, tname))
        if tname in IMMUTABLE_ATOMS:
            for s, b in res:
                if b:
                    s.facts[("immutable", v.tok)] = True   # survives merging of the per-type branches
        return res
    return interp.decide(st, ("isinstance", repr(interp.ident_key(v)), tname))


def _reduce(interp, st, a, frame, node):
    f, seq = a[0], a[1]
    init = a[2] if len(a) > 2 else None
    k, info = interp.iter_items(st, seq, frame, node)
    if k == "known":
        items = list(info)
    else:
        fac = info if k == "unknown" else info[1]
        items = [fac(0), fac(1)]
    outs = []
    cur = [(st, init)]
    for idx, it in enumerate(items):
        nxt = []
        for s, acc in cur:
            if k != "known":
                s0 = s.clone()
                outs.append(Outcome("ok", s0, acc))   # sequence ended here
            if acc is None:
                nxt.append((s, it))
                continue
            for o in interp.call_value(s, f, [acc, it], {}, frame, node):
                if o.kind == "ok":
                    nxt.append((o.state, o.value))
                else:
                    outs.append(o)
        cur = nxt
    for s, acc in cur:
        outs.append(Outcome("ok", s, acc if acc is not None else NONE))
    return outs


# --------------------------------------------------------------------------
def call_bound(interp, st, self_v, name, args, kwargs, frame, node) -> List[Outcome]:
    """Methods of modelled containers / constants / object."""
    site = interp.site(frame, node)
    a = _plain(args)
    ok = interp.ok
    short = name.rsplit(".", 1)[-1]
    if name.startswith("object."):
        if short == "__new__":
            cls = a[0] if a else self_v
            if isinstance(cls, ClassV):
                return ok(st, Ref(st.alloc(f"inst:{cls.ci.name}@{site}", Inst(cls.ci, {}, FRESH))))
            return ok(st, Sym(("new", site), {FRESH}, tags={"nonsentinel"}))
        if short == "__setattr__":
            nm, const = _attr_name(a[0])
            if isinstance(self_v, Ref) and isinstance(st.heap.get(self_v.addr), Inst):
                st.heap[self_v.addr].fields[nm] = a[1]
                return ok(st, NONE)
            interp.w_event(st, "rawset", self_v, nm, a[1], site)
            return ok(st, NONE)
        if short == "__delattr__":
            nm, const = _attr_name(a[0])
            interp.w_event(st, "rawdel", self_v, nm, None, site)
            return ok(st, NONE)
        if short in ("__init__", "__init_subclass__", "__set_name__"):
            return ok(st, NONE)
        if short == "__getattribute__":
            nm, const = _attr_name(a[0])
            return interp.load_attr(st, self_v, nm, frame, node) if const else ok(st, Sym(("getattribute",), {IMM}))
        return ok(st, Sym(("object", short), {IMM}))
    if name.startswith("const."):
        if isinstance(self_v, Const) and all(isinstance(x, Const) for x in a):
            try:
                return ok(st, Const(getattr(self_v.value, short)(*[x.value for x in a])))
            except Exception:
                pass
        if isinstance(self_v, TupleV) and short in ("index", "count"):
            return ok(st, Sym(("tuple", short), {IMM}))
        return ok(st, Sym(("const", short), {IMM}))
    if not name.startswith("container."):
        raise AnalysisError(f"bound external {name} at {site}")
    o = st.heap.get(self_v.addr)
    if isinstance(o, DictO):
        return _dict_method(interp, st, self_v, o, short, a, kwargs, frame, node)
    if isinstance(o, ListO):
        return _list_method(interp, st, self_v, o, short, a, kwargs, frame, node)
    raise AnalysisError(f"container method {short} on {o!r} at {site}")


def _dict_method(interp, st, ref, o: DictO, m, a, kwargs, frame, node):
    ok = interp.ok
    site = interp.site(frame, node)
    tokref = ("ref",) + tuple(map(str, ref.addr))
    if m in ("get", "pop"):
        k = a[0]
        default = a[1] if len(a) > 1 else (NONE if m == "get" else None)
        if isinstance(k, Sym) and ("$sym",) + k.tok in o.items:
            v = o.items[("$sym",) + k.tok]
            if m == "pop":
                del o.items[("$sym",) + k.tok]
            return ok(st, v)
        if isinstance(k, Const):
            try:
                if k.value in o.items:
                    v = o.items[k.value]
                    if m == "pop":
                        del o.items[k.value]
                    return ok(st, v)
            except TypeError:
                pass
            if o.rest is None:
                if default is None:
                    return [interp.exc(st, "KeyError", site)]
                return ok(st, default)
        if o.rest is None and not o.items:
            if default is None:
                return [interp.exc(st, "KeyError", site)]
            return ok(st, default)
        outs = []
        for s, present in interp.decide(st, ("in", repr(interp.ident_key(k)), tokref)):
            if present:
                oo = s.heap[ref.addr]
                if m == "pop" and getattr(interp.cfg, "emit_dict_pops", False):
                    s.emit("DP", vrepr(k), site)
                if oo.rest is not None:
                    v = oo.rest
                else:
                    vals = list(oo.items.values())
                    v = vals[0]
                    for x in vals[1:]:
                        v = interp.join(v, x)
                outs.append(Outcome("ok", s, v))
            elif default is None:
                outs.append(interp.exc(s, "KeyError", site))
            else:
                outs.append(Outcome("ok", s, default))
        return outs
    if m == "items":
        pairs = [TupleV([interp.dict_key_value(k), v]) for k, v in o.items.items()]
        if o.rest is None:
            return ok(st, TupleV(pairs))
        rest = TupleV([Sym(tokref + ("key",), {IMM}), o.rest])
        return ok(st, Ref(st.alloc(site + ":items", ListO(pairs, rest, FRESH))))
    if m == "keys":
        keys = [interp.dict_key_value(k) for k in o.items]
        if o.rest is None:
            return ok(st, TupleV(keys))
        return ok(st, Ref(st.alloc(site + ":keys", ListO(keys, Sym(tokref + ("key",), {IMM}), FRESH))))
    if m == "values":
        vals = list(o.items.values())
        if o.rest is None:
            return ok(st, TupleV(vals))
        return ok(st, Ref(st.alloc(site + ":values", ListO(vals, o.rest, FRESH))))
    if m == "update":
        for x in a:
            interp._dict_update(st, o, x)
        for k, v in kwargs.items():
            if k != "**":
                o.items[k] = v
        return ok(st, NONE)
    if m == "copy":
        return ok(st, Ref(st.alloc(site + ":dictcopy", o.clone())))
    if m == "setdefault":
        interp._dict_store(st, o, a[0], a[1] if len(a) > 1 else NONE)
        return ok(st, a[1] if len(a) > 1 else NONE)
    if m == "clear":
        o.items.clear()
        o.rest = None
        return ok(st, NONE)
    if m == "__contains__":
        return [Outcome("ok", s, Const(b)) for s, b in interp.contains(st, ref, a[0], frame, node)]
    raise AnalysisError(f"dict method {m} at {site}")


def _list_method(interp, st, ref, o: ListO, m, a, kwargs, frame, node):
    ok = interp.ok
    site = interp.site(frame, node)
    if m in ("append", "add"):
        if o.rest is None:
            if not (o.kind == "set" and any(vkey(a[0]) == vkey(x) for x in o.items)):
                o.items.append(a[0])
        else:
            o.rest = interp.join(o.rest, a[0])
        return ok(st, NONE)
    if m in ("extend", "update", "difference_update"):
        if m == "difference_update":
            return ok(st, NONE)
        k, info = interp.iter_items(st, a[0], frame, node)
        if k == "known":
            for x in info:
                if o.rest is None:
                    o.items.append(x)
                else:
                    o.rest = interp.join(o.rest, x)
        else:
            fac = info if k == "unknown" else info[1]
            r = fac(0) if callable(fac) else Sym(("elems", site), {IMM})
            o.rest = r if o.rest is None else interp.join(o.rest, r)
        return ok(st, NONE)
    if m == "insert":
        if o.rest is None and isinstance(a[0], Const) and isinstance(a[0].value, int):
            o.items.insert(a[0].value, a[1])
        elif o.rest is None:
            o.rest = a[1]
        else:
            o.rest = interp.join(o.rest, a[1])
        return ok(st, NONE)
    if m in ("discard", "remove", "clear", "sort", "reverse"):
        if m == "clear":
            o.items.clear()
            o.rest = None
        return ok(st, NONE)
    if m == "pop":
        if o.items and o.rest is None:
            return ok(st, o.items.pop())
        if o.rest is not None:
            return ok(st, o.rest)
        return [interp.exc(st, "IndexError", site)]
    if m in ("copy", "union", "intersection", "difference"):
        c = o.clone()
        return ok(st, Ref(st.alloc(site + ":listcopy", c)))
    if m in ("index", "count"):
        return ok(st, Sym(("list", m), {IMM}))
    if m == "__contains__":
        return [Outcome("ok", s, Const(b)) for s, b in interp.contains(st, ref, a[0], frame, node)]
    raise AnalysisError(f"list method {m} at {site}")
