"""
Flag- and path-sensitive effect interpreter over the package's Python subset.

A *finite-domain* abstract interpreter: values are provenance-labelled tokens
or small constants, booleans are three-valued, undecided conditions fork the
state and are recorded as facts (so that correlated tests stay correlated),
states that differ only in facts are merged.  No solver, nothing is executed.
"""
from __future__ import annotations

import ast
from typing import Dict, List, Optional, Tuple

from .model import AnalysisError, ClassInfo, FunctionInfo, Program, _dotted
from .state import Budget, State, merge_states
from .values import (ARG, CLS, FRESH, GLOBAL, IMM, RECV, USER, BoundV, ClassV,
                     Const, DictO, Env, Event, ExcV, ExtV, FuncV, Inst, ListO,
                     ModuleV, PartialO, Ref, Sentinel, Sym, TupleV, V, vkey,
                     vrepr)

from .common import *  # noqa: F401,F403
from .common import BUILTIN_EXC, FALSE, MUTATING_METHODS, NONE, PURE_METHODS, RAISING_METHODS, TRUE, Config, Frame, Outcome
from .exprs import ExprMixin, _as_load
from .calls import CallMixin


class Interp(ExprMixin, CallMixin):
    def __init__(self, program: Program, config: Optional[Config] = None):
        self.p = program
        self.cfg = config or Config()
        self.nstates = 0
        self.depth = 0
        self._stub_cache = {}
        self.truth_tests = set()
        self.none_tests = set()
        self._cur_site = ""
        self._pins = []
        self._global_cache = {}
        self.unclassified = set()
        self.functions_entered = set()
        self.call_sites = set()
        from . import extmodels
        self.ext = extmodels

    # ------------------------------------------------------------------ run
    def run(self, fi: FunctionInfo, args, kwargs=None, closure=None, state: Optional[State] = None,
            cls_ctx=None) -> List[Outcome]:
        """Interpret `fi` from a fresh (or given) state.  `closure`: free variables."""
        st = state or State()
        if st.event_filter is None:
            st.event_filter = getattr(self.cfg, "event_filter", None)
        env_addr = None
        if closure:
            env_addr = st.alloc(f"closure:{fi.qualname}", Env(dict(closure), None, fi.parent))
        fv = FuncV(fi, env_addr)
        self._stack = []
        self.depth = 0
        self._entry_qual = fi.qualname
        with self.pinned(list(args), list((kwargs or {}).values())):
            return self.call_function(st, fv, list(args), dict(kwargs or {}), None, None, cls_ctx=cls_ctx or fi.cls)

    def sym_class(self, tok):
        """In-repo class of an opaque object, if the scenario declares one."""
        ci = self.cfg.sym_classes.get(tok)
        if ci is None:
            for fn in self.cfg.sym_class_fns:
                ci = fn(tok)
                if ci is not None:
                    break
        return ci

    # ----------------------------------------------------------------- pins
    class _Pin:
        __slots__ = ("i", "refs")

        def __init__(self, interp, vals):
            from .state import _refs
            refs = []
            for v in vals:
                if isinstance(v, (list, tuple)) and not isinstance(v, V):
                    for x in v:
                        if isinstance(x, (Ref, FuncV, BoundV, TupleV)):
                            refs.extend(_refs(x))
                elif isinstance(v, (Ref, FuncV, BoundV, TupleV)):
                    refs.extend(_refs(v))
            self.i, self.refs = interp, refs

        def __enter__(self):
            if self.refs:
                self.i._pins.append(self.refs)

        def __exit__(self, *a):
            if self.refs:
                self.i._pins.pop()

    def pinned(self, *vals):
        """Values held by the interpreter itself (not yet stored in any frame)."""
        return Interp._Pin(self, vals)

    def gc_roots(self, st):
        roots = [a for a, o in st.heap.items() if isinstance(o, Env) or a[0] == "proxy"]
        for refs in self._pins:
            roots.extend(refs)
        return roots

    def gc(self, st):
        live = st._reachable(self.gc_roots(st))
        if len(live) != len(st.heap):
            st.heap = {a: o for a, o in st.heap.items() if a in live}

    # ------------------------------------------------------------ utilities
    def site(self, frame: Frame, node) -> str:
        if frame is None:
            return "<entry>"
        return f"{frame.fi.module.relpath}:{getattr(node, 'lineno', 0)}"

    def tick(self, n=1):
        self.nstates += n
        if self.nstates > self.cfg.max_states * 50:
            raise Budget(f"state budget exceeded ({self.nstates})")

    def exc(self, st, cls, origin=""):
        return Outcome("exc", st, ExcV(cls, origin))

    # ---------------------------------------------------------------- facts
    def fact(self, st: State, key):
        v = st.facts.get(key)
        if v is not None:
            return v
        for fd in self.cfg.fact_defaults:
            r = fd(key)
            if r is not None:
                st.facts[key] = r
                return r
        return None

    def set_fact(self, st: State, key, val: bool):
        st.facts[key] = val
        if self.cfg.record_decisions:
            st.decisions = st.decisions + ((key, val),)
        # small closure of implications
        if key[0] == "is" and val:
            tok, other = key[1], key[2]
            if other in (("S", "MISSING"), ("S", "EMPTY"), ("S", "UNCHANGED"), ("S", "SENTINEL"),
                         ("C", "NoneType", "None"), ("C", "bool", "False")):
                st.facts.setdefault(("truthy", tok), False)
            if other == ("C", "bool", "True"):
                st.facts.setdefault(("truthy", tok), True)
        if key[0] == "truthy" and val:
            tok = key[1]
            for other in (("S", "MISSING"), ("S", "EMPTY"), ("S", "UNCHANGED"),
                          ("C", "NoneType", "None"), ("C", "bool", "False")):
                st.facts.setdefault(("is", tok, other), False)

    def decide(self, st: State, key) -> List[Tuple[State, bool]]:
        """Value of an atom: known, or fork."""
        v = self.fact(st, key)
        if v is not None:
            return [(st, v)]
        s2 = st.clone()
        self.tick()
        self.set_fact(st, key, True)
        self.set_fact(s2, key, False)
        return [(st, True), (s2, False)]

    # ----------------------------------------------------------- truthiness
    def truth(self, st: State, v: V) -> List[Tuple[State, bool]]:
        if isinstance(v, Const):
            return [(st, bool(v.value))]
        if isinstance(v, Sentinel):
            return [(st, v.truthy)]
        if isinstance(v, (FuncV, BoundV, ClassV, ModuleV, ExtV, ExcV)):
            return [(st, True)]
        if isinstance(v, TupleV):
            return [(st, len(v.items) > 0)]
        if isinstance(v, Ref):
            o = st.heap.get(v.addr)
            if isinstance(o, (DictO, ListO)):
                if o.items:
                    return [(st, True)]
                if o.rest is None:
                    return [(st, False)]
                return self.decide(st, ("truthy", ("ref",) + tuple(map(str, v.addr))))
            if isinstance(o, Inst):
                c, m = self.p.lookup_method(o.cls, "__len__")
                if m is None:
                    c, m = self.p.lookup_method(o.cls, "__bool__")
                if m is None:
                    return [(st, True)]
                return self.decide(st, ("truthy", ("ref",) + tuple(map(str, v.addr))))
            return [(st, True)]
        if isinstance(v, Sym):
            if self.cfg.record_truth_tests:
                self.truth_tests.add((v.tok, tuple(sorted(v.prov)), self._cur_site, self.via()))
            return self.decide(st, ("truthy", v.tok))
        raise AnalysisError(f"truth of {v!r}")

    # ------------------------------------------------------------- identity
    def ident_key(self, v: V):
        if isinstance(v, Sym):
            return ("tok", v.tok)
        return vkey(v)

    def is_same(self, st: State, a: V, b: V) -> List[Tuple[State, bool]]:
        if isinstance(a, Sym) and isinstance(b, Sym):
            if a.tok == b.tok:
                return [(st, True)]
            ka, kb = sorted([a.tok, b.tok])
            return self.decide(st, ("is", ka, ("tok", kb)))
        if isinstance(b, Sym):
            a, b = b, a
        if isinstance(a, Sym):
            if isinstance(b, (Const, Sentinel, ClassV, ExtV)):
                if self.cfg.record_truth_tests and isinstance(b, Const) and b.value is None:
                    self.none_tests.add((a.tok, tuple(sorted(a.prov)), self._cur_site, self.via()))
                if "nonsentinel" in a.tags and (isinstance(b, Sentinel) or (isinstance(b, Const) and b.value is None)):
                    return [(st, False)]
                if isinstance(b, Sentinel) and b.truthy:
                    return [(st, False)]   # a private `object()` marker is never an input value
                if isinstance(b, Sentinel) and b.name in ("EMPTY", "UNCHANGED", "SENTINEL") \
                        and not (a.prov & {ARG, USER}):
                    return [(st, False)]   # argument-only markers are never stored state
                known = self.fact(st, ("is", a.tok, vkey(b)))
                res = self.decide(st, ("is", a.tok, vkey(b)))
                if known is None and isinstance(b, (Const, Sentinel)):
                    for s, r in res:
                        if r:
                            self.substitute(s, a.tok, b)   # the object *is* that atom from here on
                return res
            return [(st, False)]  # fresh heap objects / functions are never an opaque input
        return [(st, vkey(a) == vkey(b))]

    def substitute(self, st: State, tok, newval: V):
        """Replace every stored occurrence of the opaque object `tok` by a concrete atom."""
        def sub(v):
            if isinstance(v, Sym) and v.tok == tok:
                return newval
            if isinstance(v, TupleV) and any(isinstance(i, Sym) and i.tok == tok for i in v.items):
                return TupleV([sub(i) for i in v.items])
            return v
        for o in st.heap.values():
            if isinstance(o, Env):
                for k, v in o.vars.items():
                    o.vars[k] = sub(v)
            elif isinstance(o, Inst):
                for k, v in o.fields.items():
                    o.fields[k] = sub(v)
            elif isinstance(o, DictO):
                for k, v in o.items.items():
                    o.items[k] = sub(v)
                if o.rest is not None:
                    o.rest = sub(o.rest)
            elif isinstance(o, ListO):
                o.items = [sub(v) for v in o.items]
                if o.rest is not None:
                    o.rest = sub(o.rest)

    # ================================================================ names
    def lookup_name(self, st: State, frame: Frame, name: str, node=None) -> V:
        addr = frame.env
        while addr is not None:
            env = st.heap[addr]
            if name in env.vars:
                return env.vars[name]
            addr = env.parent
        v = self._closure_constant(frame.fi, name)
        if v is not None:
            return v
        return self.global_value(frame.fi.module, name)

    def _closure_constant(self, fi, name: str):
        """A free variable of a closure that is interpreted on its own (the generated __setattr__/__delattr__/...):
        when the enclosing function binds the name exactly once to `self.<member>` / `<Class>.<member>` of its class
        (a static helper or a constant class attribute) or to a constant, that is its value."""
        import ast as _ast
        outer = getattr(fi, "parent", None)
        hops = 0
        while outer is not None and hops < 3:
            hops += 1
            binds = [n.value for n in _ast.walk(outer.node) if isinstance(n, _ast.Assign) and len(n.targets) == 1
                     and isinstance(n.targets[0], _ast.Name) and n.targets[0].id == name]
            if len(binds) == 1:
                e = binds[0]
                if isinstance(e, _ast.Constant):
                    return Const(e.value)
                ci = outer.cls
                if ci is not None and isinstance(e, _ast.Attribute) and isinstance(e.value, _ast.Name) and e.value.id in ("self", "cls", ci.name):
                    c_, m_ = self.p.lookup_method(ci, e.attr)
                    if isinstance(m_, list) and m_ and m_[0].kind() == "static":
                        return FuncV(m_[0], None)
                    if m_ is not None and not isinstance(m_, list):
                        try:
                            return Const(_ast.literal_eval(m_))
                        except Exception:
                            return None
                return None
            outer = getattr(outer, "parent", None)
        return None

    def global_value(self, mi, name: str) -> V:
        ck = (mi.name, name)
        if ck in self._global_cache:
            return self._global_cache[ck]
        r = self.p.resolve_global(mi, name)
        v = self._value_of_resolution(r, mi, name)
        self._global_cache[ck] = v
        return v

    def _value_of_resolution(self, r, mi, name) -> V:
        if r is None:
            import builtins
            if hasattr(builtins, name):
                if name in ("None", "True", "False"):
                    return Const({"None": None, "True": True, "False": False}[name])
                return ExtV(f"builtins.{name}")
            raise AnalysisError(f"unresolved name {name!r} in {mi.name}")
        kind, payload = r
        if kind == "func":
            return FuncV(payload, None)
        if kind == "class":
            q = payload.qualname
            if q.startswith(f"{self.p.package}.types.missing:") and payload.name in (
                    "MISSING", "EMPTY", "UNCHANGED", "SENTINEL"):
                return Sentinel(payload.name, False)
            return ClassV(payload)
        if kind == "module":
            return ModuleV(payload)
        if kind == "ext":
            return ExtV(payload)
        if kind == "assign":
            m2, expr = payload
            return self.eval_static(m2, expr, name)
        raise AnalysisError(f"resolution {r!r}")

    def eval_static(self, mi, expr, name) -> V:
        """Module-level `NAME = expr`."""
        if isinstance(expr, ast.Constant):
            return Const(expr.value)
        if isinstance(expr, ast.Call):
            d = _dotted(expr.func)
            if d == "object" and not expr.args:
                return Sentinel(f"{mi.name.split('.')[-1]}.{name}", True)
        if isinstance(expr, (ast.Name, ast.Attribute)):
            d = _dotted(expr)
            if d:
                r = self.p.resolve_dotted_in(mi, d)
                if r is not None and r[0] != "classattr":
                    return self._value_of_resolution(r, mi, name)
                if r is None and isinstance(expr, ast.Name) and expr.id not in mi.bindings:
                    import builtins
                    if hasattr(builtins, expr.id):
                        return self._value_of_resolution(None, mi, expr.id)
        if isinstance(expr, (ast.List, ast.Tuple)):
            try:
                return TupleV([self.eval_static(mi, e, name) for e in expr.elts])
            except AnalysisError:
                pass
        # module-level mutable tables / compiled regexes / type vars ...
        return Sym(("global", mi.name, name), {GLOBAL})

    # ============================================================ statements
    def exec_block(self, stmts, states: List[State], frame: Frame) -> List[Outcome]:
        """Execute a statement list over a set of states."""
        done: List[Outcome] = []
        cur = states
        for stmt in stmts:
            nxt = []
            for st in cur:
                for o in self.exec_stmt(stmt, st, frame):
                    if o.kind == "next":
                        nxt.append(o.state)
                    else:
                        done.append(o)
            cur = self._merge(nxt, frame)
            if len(cur) > self.cfg.max_states:
                raise Budget(f"{len(cur)} live states at {self.site(frame, stmt)}")
            if not cur:
                break
        return done + [Outcome("next", s) for s in cur]

    def _merge(self, states, frame):
        if len(states) < 2 or self.cfg.record_decisions:
            return states
        for s in states:
            self.gc(s)
        return merge_states(states, guard_pred=self.cfg.guard_pred)

    def exec_stmt(self, stmt, st: State, frame: Frame) -> List[Outcome]:
        self.tick()
        self._cur_site = self.site(frame, stmt)
        m = getattr(self, "s_" + type(stmt).__name__, None)
        if m is None:
            raise AnalysisError(
                f"statement kind {type(stmt).__name__} not modelled at {self.site(frame, stmt)}")
        return m(stmt, st, frame)

    def _ev(self, expr, st, frame, cont) -> List[Outcome]:
        """Evaluate expr; for each ok outcome call cont(state, value) -> outcomes;
        exceptional outcomes pass through."""
        out = []
        for o in self.eval(expr, st, frame):
            if o.kind == "ok":
                out.extend(cont(o.state, o.value))
            else:
                out.append(o)
        return out

    def s_Expr(self, stmt, st, frame):
        if isinstance(stmt.value, ast.Constant):
            return [Outcome("next", st)]
        return self._ev(stmt.value, st, frame, lambda s, v: [Outcome("next", s)])

    def s_Pass(self, stmt, st, frame):
        return [Outcome("next", st)]

    def s_Import(self, stmt, st, frame):
        env = st.heap[frame.env]
        for a in stmt.names:
            nm = a.asname or a.name.split(".")[0]
            mod = self.p.modules.get(a.name)
            env.vars[nm] = ModuleV(mod) if mod else ExtV(a.name if a.asname else a.name.split(".")[0])
        return [Outcome("next", st)]

    def s_ImportFrom(self, stmt, st, frame):
        env = st.heap[frame.env]
        modname = self.p._resolve_relative(frame.fi.module, stmt.module, stmt.level)
        mod = self.p.modules.get(modname)
        for a in stmt.names:
            nm = a.asname or a.name
            if mod is not None:
                r = self.p.resolve_global(mod, a.name)
                if r is None:
                    sub = self.p.modules.get(f"{modname}.{a.name}")
                    env.vars[nm] = ModuleV(sub) if sub else Sym(("global", modname, a.name), {GLOBAL})
                else:
                    env.vars[nm] = self._value_of_resolution(r, mod, a.name)
            else:
                env.vars[nm] = ExtV(f"{modname}.{a.name}")
        return [Outcome("next", st)]

    def s_Return(self, stmt, st, frame):
        if stmt.value is None:
            return [Outcome("return", st, NONE)]
        return self._ev(stmt.value, st, frame, lambda s, v: [Outcome("return", s, v)])

    def s_Break(self, stmt, st, frame):
        return [Outcome("break", st)]

    def s_Continue(self, stmt, st, frame):
        return [Outcome("continue", st)]

    def s_FunctionDef(self, stmt, st, frame):
        fi = self.p.fn_by_node.get(id(stmt))
        if fi is None:
            raise AnalysisError(f"unindexed nested def {stmt.name}")
        st.heap[frame.env].vars[stmt.name] = FuncV(fi, frame.env)
        return [Outcome("next", st)]

    def s_ClassDef(self, stmt, st, frame):
        raise AnalysisError(f"nested class {stmt.name} not modelled at {self.site(frame, stmt)}")

    def s_Assign(self, stmt, st, frame):
        def cont(s, v):
            outs = [Outcome("next", s)]
            with self.pinned(v):
                for t in stmt.targets:
                    nxt = []
                    for o in outs:
                        if o.kind == "next":
                            nxt.extend(self.assign(t, v, o.state, frame, stmt))
                        else:
                            nxt.append(o)
                    outs = nxt
            return outs
        return self._ev(stmt.value, st, frame, cont)

    def s_AnnAssign(self, stmt, st, frame):
        if stmt.value is None:
            return [Outcome("next", st)]
        return self._ev(stmt.value, st, frame,
                        lambda s, v: self.assign(stmt.target, v, s, frame, stmt))

    def s_AugAssign(self, stmt, st, frame):
        load = _as_load(stmt.target)

        def cont(s, cur):
            def cont2(s2, rhs):
                res = self.binop_value(s2, cur, stmt.op, rhs, frame, stmt)
                return self.assign(stmt.target, res, s2, frame, stmt)
            return self._ev(stmt.value, s, frame, cont2)
        return self._ev(load, st, frame, cont)

    def s_Delete(self, stmt, st, frame):
        outs = [Outcome("next", st)]
        for t in stmt.targets:
            nxt = []
            for o in outs:
                if o.kind != "next":
                    nxt.append(o)
                    continue
                nxt.extend(self.delete(t, o.state, frame, stmt))
            outs = nxt
        return outs

    def s_Raise(self, stmt, st, frame):
        site = self.site(frame, stmt)
        if stmt.exc is None:
            cur = self._current_exc(st, frame)
            st.emit("RR", cur.cls if cur else "?", site)
            return [Outcome("exc", st, cur or ExcV("?", site))]

        def cont(s, v):
            ev = self._to_exc(s, v, site)
            s.emit("R", ev.cls, self.via(), site)
            return [Outcome("exc", s, ev)]
        return self._ev(stmt.exc, st, frame, cont)

    def _to_exc(self, st, v, site) -> ExcV:
        if isinstance(v, ExcV):
            return v
        if isinstance(v, ClassV):
            return ExcV(v.ci.name, site)
        if isinstance(v, ExtV):
            return ExcV(v.name.rsplit(".", 1)[-1], site)
        if isinstance(v, Ref) and isinstance(st.heap.get(v.addr), Inst):
            return ExcV(st.heap[v.addr].cls.name, site)
        return ExcV("?", site)

    def _current_exc(self, st, frame) -> Optional[ExcV]:
        env = st.heap[frame.env]
        return env.vars.get("$exc")

    def s_If(self, stmt, st, frame):
        out = []
        for s, b in self.cond(stmt.test, st, frame):
            if isinstance(b, Outcome):
                out.append(b)
                continue
            out.extend(self.exec_block(stmt.body if b else stmt.orelse, [s], frame))
        return out

    def cond(self, test, st, frame):
        """Evaluate a condition; returns [(state, bool)] or [(state, Outcome-exc)]."""
        res = []
        if isinstance(test, ast.UnaryOp) and isinstance(test.op, ast.Not):
            for s, b in self.cond(test.operand, st, frame):
                res.append((s, b if isinstance(b, Outcome) else (not b)))
            return res
        if isinstance(test, ast.BoolOp):
            is_and = isinstance(test.op, ast.And)
            pend = [(st, None)]
            for i, operand in enumerate(test.values):
                nxt = []
                for s, _ in pend:
                    for s2, b in self.cond(operand, s, frame):
                        if isinstance(b, Outcome):
                            res.append((s2, b))
                        elif b != is_and:       # short-circuit
                            res.append((s2, b))
                        elif i == len(test.values) - 1:
                            res.append((s2, b))
                        else:
                            nxt.append((s2, None))
                pend = nxt
            return res
        for o in self.eval(test, st, frame):
            if o.kind != "ok":
                res.append((o.state, o))
            else:
                res.extend(self.truth(o.state, o.value))
        return res

    def s_While(self, stmt, st, frame):
        done = []
        cur = [st]
        for it in range(self.cfg.loop_unroll + 1):
            nxt = []
            for s in cur:
                for s2, b in self.cond(stmt.test, s, frame):
                    if isinstance(b, Outcome):
                        done.append(b)
                    elif not b:
                        done.extend(self.exec_block(stmt.orelse, [s2], frame) if stmt.orelse
                                    else [Outcome("next", s2)])
                    elif it == self.cfg.loop_unroll:
                        s2.note(f"loop bound reached at {self.site(frame, stmt)}")
                        done.append(Outcome("next", s2))
                    else:
                        for o in self.exec_block(stmt.body, [s2], frame):
                            if o.kind in ("next", "continue"):
                                nxt.append(o.state)
                            elif o.kind == "break":
                                done.append(Outcome("next", o.state))
                            else:
                                done.append(o)
            cur = self._merge(nxt, frame)
            if not cur:
                break
        return done

    def s_For(self, stmt, st, frame):
        def cont(s, itv):
            return self.iterate(s, itv, frame, stmt,
                                lambda s2, item: self.assign(stmt.target, item, s2, frame, stmt),
                                stmt.body, stmt.orelse)
        return self._ev(stmt.iter, st, frame, cont)

    def iter_items(self, st, itv, frame, node):
        """Describe an iterable: ('known', [V...]) or ('unknown', elem_factory)."""
        if isinstance(itv, TupleV):
            return "known", list(itv.items)
        if isinstance(itv, Ref):
            o = st.heap.get(itv.addr)
            if isinstance(o, ListO) and o.rest is None:
                return "known", list(o.items)
            if isinstance(o, DictO) and o.rest is None:
                return "known", [self.dict_key_value(k) for k in o.items]
            if isinstance(o, (ListO, DictO)):
                rest = o.rest
                known = list(o.items) if isinstance(o, ListO) else [self.dict_key_value(k) for k in o.items]
                return "semi", (known, lambda k: rest if isinstance(o, ListO) else Sym(("key", k), {IMM}))
            if isinstance(o, Inst):
                return "inst", o
        if isinstance(itv, Sym):
            prov = itv.content_prov()
            tags = set()
            if "items_of" in " ".join(map(str, itv.tags)):
                pass
            return "unknown", (lambda k: self.elem_of(itv, k))
        if isinstance(itv, Const) and isinstance(itv.value, (str, tuple)):
            return "known", [Const(c) for c in itv.value]
        return "unknown", (lambda k: Sym(("iter", vrepr(itv), k), {IMM}))

    def elem_of(self, itv: Sym, k) -> V:
        prov = itv.content_prov()
        if "pairs" in itv.tags:   # .items() / enumerate(): elements are pairs
            return TupleV([Sym(itv.tok + ("key", k), prov if "enum" not in itv.tags else {IMM}),
                           Sym(itv.tok + ("val", k), prov)])
        return Sym(itv.tok + ("[]", k), prov)

    def iterate(self, st, itv, frame, node, bind, body, orelse):
        with self.pinned(itv):
            return self._iterate(st, itv, frame, node, bind, body, orelse)

    def _iterate(self, st, itv, frame, node, bind, body, orelse):
        kind, info = self.iter_items(st, itv, frame, node)
        if kind == "known":
            with self.pinned(tuple(info)):
                return self._iterate2(st, itv, frame, node, bind, body, orelse, kind, info)
        return self._iterate2(st, itv, frame, node, bind, body, orelse, kind, info)

    def _iterate2(self, st, itv, frame, node, bind, body, orelse, kind, info):
        done: List[Outcome] = []
        if kind == "inst":
            # in-repo iterable object: use its __iter__
            outs = self.call_method(st, itv, "__iter__", [], {}, frame, node)
            res = []
            for o in outs:
                if o.kind == "ok":
                    res.extend(self.iterate(o.state, o.value, frame, node, bind, body, orelse))
                else:
                    res.append(o)
            return res
        if kind == "known":
            cur = [st]
            for item in info:
                nxt = []
                for s in cur:
                    for o in bind(s, item):
                        if o.kind != "next":
                            done.append(o)
                            continue
                        for o2 in self.exec_block(body, [o.state], frame):
                            if o2.kind in ("next", "continue"):
                                nxt.append(o2.state)
                            elif o2.kind == "break":
                                done.append(Outcome("next", o2.state))
                            else:
                                done.append(o2)
                cur = self._merge(nxt, frame)
            for s in cur:
                done.extend(self.exec_block(orelse, [s], frame) if orelse else [Outcome("next", s)])
            return done
        # unknown / semi-known length: 0, 1, ... loop_unroll iterations
        if kind == "semi":
            known, fac = info
        else:
            known, fac = [], info
        cur = [st]
        total = len(known) + self.cfg.loop_unroll
        for it in range(total + 1):
            nxt = []
            for s in cur:
                # exit now (only allowed once the known prefix is consumed)
                if it >= len(known):
                    s_exit = s.clone() if it < total else s
                    done.extend(self.exec_block(orelse, [s_exit], frame) if orelse
                                else [Outcome("next", s_exit)])
                if it == total:
                    continue
                item = known[it] if it < len(known) else fac(it - len(known))
                for o in bind(s, item):
                    if o.kind != "next":
                        done.append(o)
                        continue
                    for o2 in self.exec_block(body, [o.state], frame):
                        if o2.kind in ("next", "continue"):
                            nxt.append(o2.state)
                        elif o2.kind == "break":
                            done.append(Outcome("next", o2.state))
                        else:
                            done.append(o2)
            cur = self._merge(nxt, frame)
            if not cur:
                break
        return done

    def s_With(self, stmt, st, frame):
        return self._with_items(list(stmt.items), stmt, st, frame)

    def _with_items(self, items, stmt, st, frame):
        if not items:
            return self.exec_block(stmt.body, [st], frame)
        item = items[0]
        site = self.site(frame, stmt)

        def cont(s, cm):
            with self.pinned(cm):
                return cont_(s, cm)

        def cont_(s, cm):
            outs = []
            for o in self.enter_cm(s, cm, frame, stmt):
                if o.kind != "ok":
                    outs.append(o)
                    continue
                s2 = o.state
                pre = [Outcome("next", s2)]
                if item.optional_vars is not None:
                    pre = self.assign(item.optional_vars, o.value, s2, frame, stmt)
                for p in pre:
                    if p.kind != "next":
                        outs.append(p)
                        continue
                    for b in self._with_items(items[1:], stmt, p.state, frame):
                        for e in self.exit_cm(b.state, cm, frame, stmt, b):
                            outs.append(e)
            return outs
        return self._ev(item.context_expr, st, frame, cont)

    def enter_cm(self, st, cm, frame, node):
        site = self.site(frame, node)
        if isinstance(cm, Sym) and "lock" in cm.tags:
            st.emit("L+", vrepr(cm), site)
            return [Outcome("ok", st, cm)]
        if isinstance(cm, Ref) and isinstance(st.heap.get(cm.addr), Inst):
            return self.call_method(st, cm, "__enter__", [], {}, frame, node)
        return [Outcome("ok", st, cm)]   # warnings.catch_warnings() etc.

    def exit_cm(self, st, cm, frame, node, body_outcome: Outcome):
        site = self.site(frame, node)
        if isinstance(cm, Sym) and "lock" in cm.tags:
            st.emit("L-", vrepr(cm), site)
            return [body_outcome]
        if isinstance(cm, Ref) and isinstance(st.heap.get(cm.addr), Inst):
            res = []
            for o in self.call_method(st, cm, "__exit__", [NONE, NONE, NONE], {}, frame, node):
                if o.kind == "ok":
                    res.append(Outcome(body_outcome.kind, o.state, body_outcome.value))
                else:
                    res.append(o)
            return res
        return [body_outcome]

    def s_Try(self, stmt, st, frame):
        outs = []
        old = frame.handlers
        frame.handlers = old + (stmt,)
        try:
            body_outs = self.exec_block(stmt.body, [st], frame)
        finally:
            frame.handlers = old
        after = []
        for o in body_outs:
            if o.kind == "exc":
                after.extend(self._dispatch_handlers(stmt, o, frame))
            elif o.kind == "next" and stmt.orelse:
                after.extend(self.exec_block(stmt.orelse, [o.state], frame))
            else:
                after.append(o)
        if not stmt.finalbody:
            return after
        for o in after:
            for f in self.exec_block(stmt.finalbody, [o.state], frame):
                if f.kind == "next":
                    outs.append(Outcome(o.kind, f.state, o.value))
                else:
                    outs.append(f)
        return outs

    def exc_matches(self, st, exc: ExcV, hv: V) -> Optional[bool]:
        """True / False / None (=unknown: user exception vs specific class)."""
        names = []
        if isinstance(hv, TupleV):
            rs = [self.exc_matches(st, exc, i) for i in hv.items]
            if any(r is True for r in rs):
                return True
            if any(r is None for r in rs):
                return None
            return False
        if isinstance(hv, ExtV):
            hname = hv.name.rsplit(".", 1)[-1]
        elif isinstance(hv, ClassV):
            hname = hv.ci.name
        else:
            return None
        if hname in ("BaseException",):
            return True
        if exc.cls == "?":
            return True if hname == "Exception" else None
        # walk up exc's class chain
        c = exc.cls
        seen = 0
        while c is not None and seen < 12:
            if c == hname:
                return True
            seen += 1
            if c in BUILTIN_EXC:
                c = BUILTIN_EXC[c]
            else:
                ci = [k for k in self.p.classes.values() if k.name == c]
                if not ci:
                    return None
                bases = self.p.class_bases(ci[0])
                nxt = None
                for b in bases:
                    nxt = b.name if isinstance(b, ClassInfo) else str(b).rsplit(".", 1)[-1]
                    break
                c = nxt
        return False

    def _dispatch_handlers(self, trystmt, o: Outcome, frame):
        outs = []
        pending = [o.state]
        exc = o.value
        for h in trystmt.handlers:
            if not pending:
                break
            nxt_pending = []
            for s in pending:
                if h.type is None:
                    m = True
                    pairs = [(s, True)]
                else:
                    pairs = []
                    for ho in self.eval(h.type, s, frame):
                        if ho.kind != "ok":
                            outs.append(ho)
                            continue
                        m = self.exc_matches(ho.state, exc, ho.value)
                        if m is None:
                            key = ("caught", exc.origin, self.site(frame, h))
                            pairs.extend(self.decide(ho.state, key))
                        else:
                            pairs.append((ho.state, m))
                for s2, matched in pairs:
                    if not matched:
                        nxt_pending.append(s2)
                        continue
                    env = s2.heap[frame.env]
                    saved = env.vars.get("$exc")
                    env.vars["$exc"] = exc
                    if h.name:
                        env.vars[h.name] = exc
                    for ho in self.exec_block(h.body, [s2], frame):
                        e2 = ho.state.heap[frame.env]
                        if saved is None:
                            e2.vars.pop("$exc", None)
                        else:
                            e2.vars["$exc"] = saved
                        if h.name:
                            e2.vars.pop(h.name, None)
                        outs.append(ho)
            pending = nxt_pending
        for s in pending:
            outs.append(Outcome("exc", s, exc))
        return outs

    def s_Assert(self, stmt, st, frame):
        return [Outcome("next", st)]

    def s_Global(self, stmt, st, frame):
        raise AnalysisError("global statement not modelled")

    s_Nonlocal = s_Global
