"""Obligations, violations, evidence and known-findings handling."""
from __future__ import annotations

import json
import os
import re
import time
from typing import Dict, List, Optional

VERIF = os.path.dirname(os.path.dirname(os.path.abspath(__file__)))


def norm_stmt(text: str) -> str:
    return re.sub(r"\s+", " ", text or "").strip()


class Violation:
    def __init__(self, rule: str, key: str, what: str, site: str = "", function: str = "",
                 path: Optional[list] = None, entry: str = ""):
        self.rule = rule          # e.g. C01.W
        self.key = key            # construct-level key (no line numbers)
        self.what = what
        self.site = site          # file:line (diagnostic only)
        self.function = function
        self.path = path or []
        self.entry = entry

    def as_dict(self):
        return {"rule": self.rule, "key": self.key, "what": self.what, "site": self.site,
                "function": self.function, "entry": self.entry, "path": self.path[:40]}


class Report:
    def __init__(self, pid: str, tier: str):
        self.pid = pid
        self.tier = tier
        self.t0 = time.time()
        self.obligations: List[dict] = []
        self.violations: List[Violation] = []
        self.evaluations = 0
        self.nontrivial = set()
        self.samples: List[object] = []
        self.functions = set()
        self.call_sites = set()
        self.entry_points = set()
        self.envs = []
        self.notes: List[str] = []
        self.extra: Dict[str, object] = {}
        self.rules: Dict[str, str] = {}

    # obligations --------------------------------------------------------
    def oblige(self, rule: str, instance: str, ok: bool, detail: str = ""):
        self.obligations.append({"rule": rule, "instance": instance, "ok": bool(ok), "detail": detail})

    def violate(self, v: Violation):
        for x in self.violations:
            if x.rule == v.rule and x.key == v.key:
                return
        self.violations.append(v)

    def absorb(self, interp):
        self.functions |= set(interp.functions_entered)
        self.call_sites |= set(interp.call_sites)

    def add_paths(self, outcomes, relevant_kinds=("W", "R", "U", "INV", "CHK", "L+", "CP", "UR", "MR")):
        for o in outcomes:
            self.evaluations += 1
            tr = tuple(e for e in o.state.trace if e[0] in relevant_kinds)
            if tr:
                self.nontrivial.add((o.kind, tr))

    def sample(self, s):
        if len(self.samples) < 12:
            self.samples.append(s)


def load_known(path=None) -> List[dict]:
    path = path or os.path.join(VERIF, "known_findings.json")
    if not os.path.exists(path):
        return []
    with open(path) as f:
        data = json.load(f)
    return data.get("findings", [])


def triage(rep: Report):
    """Split the violations into (new, matched-to-a-listed-known-finding, active known entries)."""
    known = [k for k in load_known() if k.get("property") == rep.pid]
    import fnmatch
    active = [k for k in known if k.get("status") == "known"]
    new, matched = [], []
    for v in rep.violations:
        hit = None
        for k in active:
            if k["rule"] == v.rule and (k["key"] == v.key or fnmatch.fnmatchcase(v.key, k["key"])):
                hit = k
                break
        if hit is not None:
            matched.append((v, hit))
        else:
            new.append(v)
    return new, matched, active


def finish(rep: Report, level="other", explanation="", assumptions=(), trusted=()):
    """Apply known findings, write evidence, print verdict lines, return exit code."""
    new, matched, active = triage(rep)
    printed = set()
    for v, k in matched:
        if k.get("id") in printed:
            continue
        printed.add(k.get("id"))
        print(f"KNOWN-FINDING: property={rep.pid} {k.get('id', '')} {k['what']} [{v.rule} at {v.site}]")
    # a listed known finding that no longer fires is reported (not an error)
    for k in active:
        if k.get("id") not in printed:
            print(f"NOTE: known finding {k.get('id','')} ({k['rule']}) did not fire on this tree")
    ev_dir = os.path.join(VERIF, "evidence") if not os.environ.get("SA_NO_EVIDENCE") else \
        os.path.join(os.environ.get("TMPDIR", "/dev/shm"), f"sa_evidence_{os.getpid()}")
    os.makedirs(ev_dir, exist_ok=True)
    replay = os.path.join(ev_dir, f"{rep.pid}.violations.json")
    if new:
        with open(replay, "w") as f:
            json.dump([v.as_dict() for v in new], f, indent=1)
    elif os.path.exists(replay):
        os.remove(replay)
    n_ob = len(rep.obligations)
    n_ok = sum(1 for o in rep.obligations if o["ok"])
    bad = [o for o in rep.obligations if not o["ok"]]
    samples = rep.samples[:8] + [o for o in rep.obligations[:6]]
    cov = {
        "explanation": explanation,
        "obligations": n_ob,
        "discharged": n_ok,
        "failed_obligations": bad[:30],
        "evaluations": max(rep.evaluations, n_ob),
        "distinct_nontrivial": len(rep.nontrivial) if rep.nontrivial else len({(o["rule"], o["instance"]) for o in rep.obligations}),
        "rule": "; ".join(f"{k}: {v}" for k, v in rep.rules.items()),
        "samples": samples or ["<none>"],
        "exhaustive": bool(rep.extra.get("exhaustive", False)),
        "functions_analysed": sorted(rep.functions)[:400],
        "n_functions_analysed": len(rep.functions),
        "call_sites": len(rep.call_sites),
        "entry_points": sorted(rep.entry_points),
        "assumption_envs": rep.envs,
        "known_findings_matched": [k.get("id", k["key"]) for _, k in matched],
        "trusted_base": list(trusted),
        "notes": rep.notes[:40],
        "checker_cmd": f"/venv/bin/python /verif/check.py {rep.pid} --tier {rep.tier}",
    }
    for k, v in rep.extra.items():
        cov.setdefault(k, v)
    ev = {
        "property_id": rep.pid,
        "tier": rep.tier,
        "seed": int(os.environ.get("VERIF_SEED", "0") or 0),
        "level": level,
        "coverage": cov,
        "assumptions": list(assumptions),
        "wall_s": round(time.time() - rep.t0, 3),
        "violations": len(new),
    }
    with open(os.path.join(ev_dir, f"{rep.pid}.json"), "w") as f:
        json.dump(ev, f, indent=1, default=str)
    print(f"{rep.pid} [{rep.tier}] obligations={n_ob} discharged={n_ok} paths={rep.evaluations} "
          f"known={len(matched)} new_violations={len(new)} wall={ev['wall_s']}s")
    if new:
        for v in new:
            print(f"  {v.rule} {v.site} in {v.function}: {v.what}  [key={v.key}]")
        print(f"VIOLATION property={rep.pid} replay={replay}")
        return 1
    return 0
