"""
Program model: parses every module of the analysed package (and the stdlib
source of the ABC mixins it inherits), and answers static questions about it:
module-level bindings, classes and their MRO, functions by qualified name.

Nothing here imports or executes the analysed package.
"""
from __future__ import annotations

import ast
import hashlib
import os
import sysconfig
from typing import Dict, Iterator, List, Optional, Tuple


class AnalysisError(Exception):
    """The checker could not establish its own preconditions (exit 2)."""


class FunctionInfo:
    __slots__ = ("qualname", "node", "module", "cls", "parent", "decorators", "is_lambda")

    def __init__(self, qualname, node, module, cls=None, parent=None):
        self.qualname = qualname  # "pkg.mod:Class.func" / "pkg.mod:func.<locals>.inner"
        self.node = node
        self.module = module  # ModuleInfo
        self.cls = cls  # ClassInfo or None (class whose body defines it)
        self.parent = parent  # enclosing FunctionInfo or None
        self.is_lambda = isinstance(node, ast.Lambda)
        self.decorators = (
            [] if self.is_lambda else [_dotted(d) or "?" for d in node.decorator_list]
        )

    @property
    def name(self):
        return "<lambda>" if self.is_lambda else self.node.name

    @property
    def file(self):
        return self.module.relpath

    def kind(self):
        """'static' | 'class' | 'property' | 'cached_property' | 'setter' | 'plain'"""
        for d in self.decorators:
            last = d.rsplit(".", 1)[-1]
            if last == "staticmethod":
                return "static"
            if last == "classmethod":
                return "class"
            if last in ("property", "abstractproperty"):
                return "property"
            if last == "cached_property":
                return "cached_property"
            if last in ("setter", "deleter", "getter"):
                return last
        return "plain"

    def __repr__(self):
        return f"<fn {self.qualname}>"


class ClassInfo:
    def __init__(self, qualname, node, module):
        self.qualname = qualname  # "pkg.mod:Class"
        self.node = node
        self.module = module
        self.methods: Dict[str, List[FunctionInfo]] = {}  # name -> defs in body order
        self.assigns: Dict[str, ast.expr] = {}  # class-level NAME = expr
        self.base_exprs = list(node.bases)
        self.keywords = {k.arg: k.value for k in node.keywords}
        self._mro: Optional[List["ClassInfo"]] = None

    @property
    def name(self):
        return self.node.name

    def __repr__(self):
        return f"<class {self.qualname}>"


class ModuleInfo:
    def __init__(self, name, path, relpath, source):
        self.name = name
        self.path = path
        self.relpath = relpath
        self.source = source
        self.tree = ast.parse(source, filename=path)
        self.is_package = os.path.basename(path) == "__init__.py"
        self.bindings: Dict[str, Tuple[str, object]] = {}
        # name -> ("func", FunctionInfo) | ("class", ClassInfo) | ("import", dotted)
        #         | ("from", (module_dotted, name)) | ("assign", ast.expr)

    def __repr__(self):
        return f"<module {self.name}>"


def _dotted(node) -> Optional[str]:
    if isinstance(node, ast.Name):
        return node.id
    if isinstance(node, ast.Attribute):
        base = _dotted(node.value)
        return f"{base}.{node.attr}" if base else None
    if isinstance(node, ast.Call):
        return _dotted(node.func)
    return None


class Program:
    """All parsed modules of one source tree."""

    STDLIB_EXTRA = {"_collections_abc": "_collections_abc.py"}

    def __init__(self, repo_root: str, package: str = "spec_classes"):
        self.repo_root = os.path.abspath(repo_root)
        self.package = package
        self.modules: Dict[str, ModuleInfo] = {}
        self.classes: Dict[str, ClassInfo] = {}
        self.functions: Dict[str, FunctionInfo] = {}
        self.fn_by_node: Dict[int, FunctionInfo] = {}
        self._load()

    # ------------------------------------------------------------------ load
    def _load(self):
        pkg_dir = os.path.join(self.repo_root, self.package)
        if not os.path.isdir(pkg_dir):
            raise AnalysisError(f"package directory not found: {pkg_dir}")
        for dirpath, dirnames, filenames in os.walk(pkg_dir):
            dirnames[:] = sorted(d for d in dirnames if d != "__pycache__")
            for fn in sorted(filenames):
                if not fn.endswith(".py"):
                    continue
                path = os.path.join(dirpath, fn)
                rel = os.path.relpath(path, self.repo_root)
                parts = rel[:-3].split(os.sep)
                if parts[-1] == "__init__":
                    parts = parts[:-1]
                name = ".".join(parts)
                with open(path, encoding="utf-8") as f:
                    src = f.read()
                try:
                    self.modules[name] = ModuleInfo(name, path, rel, src)
                except SyntaxError as e:
                    raise AnalysisError(f"cannot parse {rel}: {e}")
        stdlib = sysconfig.get_paths()["stdlib"]
        for name, fn in self.STDLIB_EXTRA.items():
            path = os.path.join(stdlib, fn)
            with open(path, encoding="utf-8") as f:
                src = f.read()
            self.modules[name] = ModuleInfo(name, path, f"<stdlib>/{fn}", src)
        for m in self.modules.values():
            self._index_module(m)

    def digest(self) -> str:
        h = hashlib.sha256()
        for name in sorted(self.modules):
            h.update(name.encode())
            h.update(self.modules[name].source.encode())
        return h.hexdigest()[:16]

    def _index_module(self, m: ModuleInfo):
        def bind_stmt(stmt):
            if isinstance(stmt, (ast.FunctionDef, ast.AsyncFunctionDef)):
                fi = self._index_function(stmt, m, f"{m.name}:{stmt.name}", None, None)
                m.bindings[stmt.name] = ("func", fi)
            elif isinstance(stmt, ast.ClassDef):
                ci = self._index_class(stmt, m, f"{m.name}:{stmt.name}")
                m.bindings[stmt.name] = ("class", ci)
            elif isinstance(stmt, ast.Import):
                for a in stmt.names:
                    if a.asname:
                        m.bindings[a.asname] = ("import", a.name)
                    else:
                        m.bindings[a.name.split(".")[0]] = ("import", a.name.split(".")[0])
            elif isinstance(stmt, ast.ImportFrom):
                mod = self._resolve_relative(m, stmt.module, stmt.level)
                for a in stmt.names:
                    m.bindings[a.asname or a.name] = ("from", (mod, a.name))
            elif isinstance(stmt, ast.Assign):
                for t in stmt.targets:
                    if isinstance(t, ast.Name):
                        m.bindings[t.id] = ("assign", stmt.value)
            elif isinstance(stmt, ast.AnnAssign):
                if isinstance(stmt.target, ast.Name) and stmt.value is not None:
                    m.bindings[stmt.target.id] = ("assign", stmt.value)
            elif isinstance(stmt, ast.Try):
                # `try: from typing import Literal / except ImportError: ...` -> body wins
                for s in stmt.handlers:
                    for s2 in s.body:
                        bind_stmt(s2)
                for s in stmt.body:
                    bind_stmt(s)
            elif isinstance(stmt, ast.If):
                # e.g. `if TYPE_CHECKING:`; bind both arms, else-arm first
                for s in stmt.orelse:
                    bind_stmt(s)
                test = _dotted(stmt.test) or ""
                if not test.endswith("TYPE_CHECKING"):
                    for s in stmt.body:
                        bind_stmt(s)

        for stmt in m.tree.body:
            bind_stmt(stmt)

    def _resolve_relative(self, m: ModuleInfo, module: Optional[str], level: int) -> str:
        if level == 0:
            return module or ""
        parts = m.name.split(".")
        if not m.is_package:
            parts = parts[:-1]
        if level > 1:
            parts = parts[: len(parts) - (level - 1)]
        if module:
            parts = parts + module.split(".")
        return ".".join(parts)

    def _index_class(self, node: ast.ClassDef, m: ModuleInfo, qualname: str) -> ClassInfo:
        ci = ClassInfo(qualname, node, m)
        self.classes[qualname] = ci
        for stmt in node.body:
            if isinstance(stmt, (ast.FunctionDef, ast.AsyncFunctionDef)):
                fi = self._index_function(stmt, m, f"{qualname}.{stmt.name}", ci, None)
                ci.methods.setdefault(stmt.name, []).append(fi)
            elif isinstance(stmt, ast.Assign):
                for t in stmt.targets:
                    if isinstance(t, ast.Name):
                        ci.assigns[t.id] = stmt.value
            elif isinstance(stmt, ast.AnnAssign):
                if isinstance(stmt.target, ast.Name) and stmt.value is not None:
                    ci.assigns[stmt.target.id] = stmt.value
            elif isinstance(stmt, ast.ClassDef):
                self._index_class(stmt, m, f"{qualname}.{stmt.name}")
        return ci

    def _index_function(self, node, m, qualname, cls, parent) -> FunctionInfo:
        fi = FunctionInfo(qualname, node, m, cls, parent)
        # several defs may share a qualname (property getter/setter): keep all
        key = qualname
        n = 2
        while key in self.functions:
            key = f"{qualname}#{n}"
            n += 1
        fi.qualname = key
        self.functions[key] = fi
        self.fn_by_node[id(node)] = fi
        self._index_nested(node, m, key, cls_ctx=None, parent=fi)
        return fi

    def _index_nested(self, fnode, m, qualname, cls_ctx, parent):
        """Index functions / lambdas / classes nested inside a function body."""
        lam_count = [0]

        def visit(n):
            for child in ast.iter_child_nodes(n):
                if isinstance(child, (ast.FunctionDef, ast.AsyncFunctionDef)):
                    self._index_function(
                        child, m, f"{qualname}.<locals>.{child.name}", None, parent
                    )
                elif isinstance(child, ast.Lambda):
                    lam_count[0] += 1
                    q = f"{qualname}.<locals>.<lambda{lam_count[0]}>"
                    fi = FunctionInfo(q, child, m, None, parent)
                    self.functions[q] = fi
                    self.fn_by_node[id(child)] = fi
                    visit_lambda(child, q, fi)
                elif isinstance(child, ast.ClassDef):
                    self._index_class(child, m, f"{qualname}.<locals>.{child.name}")
                else:
                    visit(child)

        def visit_lambda(lnode, q, fi):
            self._index_nested(lnode, m, q, None, fi)

        if isinstance(fnode, ast.Lambda):
            visit(fnode)
        else:
            for stmt in fnode.body:
                # visit statement itself (it may be a def)
                wrapper = ast.Module(body=[stmt], type_ignores=[])
                visit(wrapper)
            for d in fnode.args.defaults + [x for x in fnode.args.kw_defaults if x is not None]:
                wrapper = ast.Expr(value=d)
                visit(wrapper)

    # ---------------------------------------------------------------- lookup
    def module(self, name: str) -> Optional[ModuleInfo]:
        return self.modules.get(name)

    def resolve_global(self, m: ModuleInfo, name: str, _depth=0):
        """Resolve a module-level name to
        ("func", FunctionInfo) | ("class", ClassInfo) | ("module", ModuleInfo)
        | ("ext", dotted) | ("assign", (ModuleInfo, expr)) | None"""
        if _depth > 12:
            return None
        b = m.bindings.get(name)
        if b is None:
            return None
        kind, payload = b
        if kind in ("func", "class"):
            return (kind, payload)
        if kind == "assign":
            return ("assign", (m, payload))
        if kind == "import":
            mod = self.modules.get(payload)
            if mod is not None:
                return ("module", mod)
            return ("ext", payload)
        if kind == "from":
            modname, attr = payload
            if modname in ("collections.abc",):
                modname = "_collections_abc"
            mod = self.modules.get(modname)
            if mod is not None:
                r = self.resolve_global(mod, attr, _depth + 1)
                if r is not None:
                    return r
                sub = self.modules.get(f"{modname}.{attr}")
                if sub is not None:
                    return ("module", sub)
                return None
            return ("ext", f"{modname}.{attr}")
        return None

    def resolve_dotted_in(self, m: ModuleInfo, dotted: str):
        parts = dotted.split(".")
        r = self.resolve_global(m, parts[0])
        for p in parts[1:]:
            if r is None:
                return None
            kind, payload = r
            if kind == "module":
                r = self.resolve_global(payload, p)
                if r is None:
                    sub = self.modules.get(f"{payload.name}.{p}")
                    r = ("module", sub) if sub else None
            elif kind == "ext":
                r = ("ext", f"{payload}.{p}")
            elif kind == "class":
                return ("classattr", (payload, ".".join(parts[parts.index(p):])))
            else:
                return None
        return r

    # --------------------------------------------------------------- classes
    def class_bases(self, ci: ClassInfo) -> List[object]:
        """Resolved bases: ClassInfo for in-model classes, str for external."""
        out = []
        for b in ci.base_exprs:
            expr = b
            if isinstance(expr, ast.Subscript):  # Generic[...]
                expr = expr.value
            d = _dotted(expr)
            if d is None:
                out.append("?")
                continue
            r = self.resolve_dotted_in(ci.module, d)
            if r and r[0] == "class":
                out.append(r[1])
            elif r and r[0] == "ext":
                out.append(r[1])
            else:
                out.append(d)
        return out

    def mro(self, ci: ClassInfo) -> List[ClassInfo]:
        """C3 linearisation over in-model classes (external bases dropped)."""
        if ci._mro is not None:
            return ci._mro
        bases = [b for b in self.class_bases(ci) if isinstance(b, ClassInfo)]
        seqs = [list(self.mro(b)) for b in bases] + [list(bases)]
        res = [ci]
        while True:
            seqs = [s for s in seqs if s]
            if not seqs:
                break
            for s in seqs:
                cand = s[0]
                if not any(cand in t[1:] for t in seqs):
                    break
            else:
                raise AnalysisError(f"inconsistent MRO for {ci.qualname}")
            res.append(cand)
            for s in seqs:
                if s and s[0] is cand:
                    del s[0]
        ci._mro = res
        return res

    def external_bases(self, ci: ClassInfo) -> List[str]:
        out = []
        for c in self.mro(ci):
            for b in self.class_bases(c):
                if isinstance(b, str):
                    out.append(b)
        return out

    def lookup_method(self, ci: ClassInfo, name: str, after: Optional[ClassInfo] = None):
        """All defs named `name` on the first class of the MRO (after `after`)
        that defines it, as (ClassInfo, [FunctionInfo] | ast.expr)."""
        mro = self.mro(ci)
        if after is not None:
            if after in mro:
                mro = mro[mro.index(after) + 1:]
            else:
                mro = []
        for c in mro:
            if name in c.methods:
                return c, c.methods[name]
            if name in c.assigns:
                fn_alias = self._function_alias(c, c.assigns[name])
                if fn_alias is not None:
                    return c, [fn_alias]          # NAME = staticmethod(module_function) / NAME = module_function
                return c, c.assigns[name]
            prefix = f"_{c.name.lstrip('_')}__"
            if name.startswith(prefix):          # name-mangled private member
                alt = "__" + name[len(prefix):]
                if alt in c.methods:
                    return c, c.methods[alt]
                if alt in c.assigns:
                    return c, c.assigns[alt]
        return None, None

    def _function_alias(self, c: ClassInfo, expr):
        inner = expr
        if isinstance(expr, ast.Call) and isinstance(expr.func, ast.Name) and expr.func.id in ("staticmethod", "classmethod") and len(expr.args) == 1:
            inner = expr.args[0]
        if isinstance(inner, ast.Name):
            r = self.resolve_global(c.module, inner.id)
            if r and r[0] == "func":
                return r[1]
        return None

    def is_subclass(self, ci: ClassInfo, other: ClassInfo) -> bool:
        return other in self.mro(ci)

    def find_class(self, suffix: str) -> ClassInfo:
        hits = [c for q, c in self.classes.items() if q == suffix or q.endswith(":" + suffix)]
        if len(hits) != 1:
            raise AnalysisError(f"class anchor {suffix!r}: {len(hits)} matches")
        return hits[0]

    def find_function(self, suffix: str) -> FunctionInfo:
        hits = [f for q, f in self.functions.items() if q == suffix or q.endswith(":" + suffix)]
        if len(hits) != 1:
            raise AnalysisError(f"function anchor {suffix!r}: {len(hits)} matches")
        return hits[0]

    def find_functions(self, suffix: str) -> List[FunctionInfo]:
        return [
            f
            for q, f in self.functions.items()
            if q == suffix or q.endswith(":" + suffix) or q.split("#")[0].endswith(":" + suffix)
        ]

    def iter_functions(self, package_only=True) -> Iterator[FunctionInfo]:
        for f in self.functions.values():
            if package_only and not f.module.name.startswith(self.package):
                continue
            yield f

    def stmt_at(self, site: str):
        """(function qualname, normalised source of the innermost simple statement) at file:line."""
        import re
        rel, _, line = site.rpartition(":")
        try:
            line = int(line)
        except ValueError:
            return ("?", "?")
        mod = None
        for m in self.modules.values():
            if m.relpath == rel:
                mod = m
                break
        if mod is None:
            return ("?", "?")
        best_fn, best_stmt = None, None
        for node in ast.walk(mod.tree):
            lo, hi = getattr(node, "lineno", None), getattr(node, "end_lineno", None)
            if lo is None or not (lo <= line <= hi):
                continue
            if isinstance(node, (ast.FunctionDef, ast.Lambda, ast.AsyncFunctionDef)):
                fi = self.fn_by_node.get(id(node))
                if fi and (best_fn is None or lo >= best_fn.node.lineno):
                    best_fn = fi
            if isinstance(node, ast.stmt) and not isinstance(node, (ast.FunctionDef, ast.ClassDef)):
                if best_stmt is None or (hi - lo) <= (best_stmt.end_lineno - best_stmt.lineno):
                    best_stmt = node
        text = "?"
        if best_stmt is not None:
            if isinstance(best_stmt, (ast.If, ast.For, ast.While, ast.With, ast.Try)):
                hdr = ast.get_source_segment(mod.source, best_stmt) or ""
                text = hdr.split(":\n")[0]
            else:
                text = ast.unparse(best_stmt)
            text = re.sub(r"\s+", " ", text).strip()[:160]
        return (best_fn.qualname.split(":")[-1].split("#")[0] if best_fn else "<module>", text)

    def stats(self):
        pk = [m for n, m in self.modules.items() if n.startswith(self.package)]
        return {
            "modules": len(pk),
            "classes": sum(1 for c in self.classes.values() if c.module in pk),
            "functions": sum(1 for f in self.functions.values() if f.module in pk),
        }


def site(fi_or_module, node) -> str:
    m = fi_or_module.module if isinstance(fi_or_module, FunctionInfo) else fi_or_module
    return f"{m.relpath}:{getattr(node, 'lineno', 0)}"
