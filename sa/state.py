"""Interpreter state: heap, facts (path condition), event trace."""
from __future__ import annotations

from .values import Env, Event, HObj, vkey


class Budget(Exception):
    pass


class State:
    __slots__ = ("heap", "facts", "trace", "counters", "notes", "decisions", "event_filter")

    def __init__(self):
        self.heap = {}       # addr -> HObj
        self.facts = {}      # fact key -> bool
        self.trace = ()      # tuple[Event]
        self.counters = {}   # allocation site -> n
        self.notes = ()      # non-semantic remarks
        self.decisions = ()  # ordered (fact key, bool) taken by forks, for diagnostics / decision tables
        self.event_filter = None  # optional predicate: events it rejects are not recorded

    def clone(self) -> "State":
        s = State.__new__(State)
        s.heap = {a: o.clone() for a, o in self.heap.items()}
        s.facts = dict(self.facts)
        s.trace = self.trace
        s.counters = dict(self.counters)
        s.notes = self.notes
        s.decisions = self.decisions
        s.event_filter = self.event_filter
        return s

    def alloc(self, site: str, obj: HObj):
        n = self.counters.get(site, 0)
        self.counters[site] = n + 1
        if n > 6:
            n = 6  # finite address space: later allocations at a site share an address
        addr = (site, n)
        self.heap[addr] = obj
        return addr

    def emit(self, *ev):
        f = self.event_filter
        if f is not None:
            if getattr(f, "is_reducer", False):
                self.trace = f(self.trace, Event(ev))
                return
            if not f(ev):
                return
        self.trace = self.trace + (Event(ev),)

    def note(self, text):
        if text not in self.notes:
            self.notes = self.notes + (text,)

    def key(self, roots=None):
        """Canonical key of everything except facts/notes/decisions."""
        live = self._reachable(roots) if roots is not None else self.heap.keys()
        return (
            tuple(sorted((a, self.heap[a].key()) for a in live if a in self.heap)),
            self.trace,
        )

    def _reachable(self, roots):
        seen = set()
        work = list(roots)
        while work:
            a = work.pop()
            if a in seen or a not in self.heap:
                continue
            seen.add(a)
            o = self.heap[a]
            for v in _children(o):
                for r in _refs(v):
                    work.append(r)
            if isinstance(o, Env) and o.parent is not None:
                work.append(o.parent)
        return seen


def _children(o):
    from .values import DictO, Inst, ListO, PartialO
    if isinstance(o, Inst):
        return list(o.fields.values())
    if isinstance(o, DictO):
        return list(o.items.values()) + ([o.rest] if o.rest is not None else [])
    if isinstance(o, ListO):
        return list(o.items) + ([o.rest] if o.rest is not None else [])
    if isinstance(o, PartialO):
        return [o.func, *o.args, *o.kwargs.values()]
    if isinstance(o, Env):
        return list(o.vars.values())
    return []


def _refs(v):
    from .values import BoundV, FuncV, Ref, TupleV
    if isinstance(v, Ref):
        yield v.addr
    elif isinstance(v, FuncV):
        if v.env is not None:
            yield v.env
    elif isinstance(v, BoundV):
        yield from _refs(v.self_v)
        yield from _refs(v.func)
    elif isinstance(v, TupleV):
        for i in v.items:
            yield from _refs(i)


def merge_states(states, roots_of=None, guard_pred=None):
    """Merge states that are equal except for facts (facts are intersected).
    Facts selected by `guard_pred` are part of the identity (never merged away)."""
    out = {}
    order = []
    for item in states:
        st = item[0] if isinstance(item, tuple) else item
        extra = item[1:] if isinstance(item, tuple) else ()
        k = (st.key(), tuple(vkey(e) if hasattr(e, "key") else e for e in extra))
        if guard_pred is not None:
            k = k + (tuple(sorted(((f, b) for f, b in st.facts.items() if guard_pred(f)), key=repr)),)
        if k in out:
            prev = out[k]
            pst = prev[0] if isinstance(prev, tuple) else prev
            pst.facts = {f: b for f, b in pst.facts.items() if st.facts.get(f) is b}
        else:
            out[k] = item
            order.append(k)
    return [out[k] for k in order]
