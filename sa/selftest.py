"""Checker self-test (thorough tier): the same rules, run on variants of the *current* tree.

* breaking variants  = /verif/seeded/<PID>-*/patch.diff  (independently written changes that violate the
  property while keeping the test-suite green) — the check must report a VIOLATION on each;
* benign variants    = /verif/benign/*/patch.diff (independently written behaviour-preserving refactorings)
  — the check must give the same verdict as on the unmodified tree.
Every variant is a scratch copy of <repo>/spec_classes under a fresh temporary directory (never /repo
itself), patched with zero fuzz, analysed statically by a child `check.py --tier quick --repo <scratch>`
(no evidence written) and deleted.  A patch that no longer applies to the current tree is skipped and
counted as such."""
from __future__ import annotations

import os
import shutil
import subprocess
import sys
import tempfile
from concurrent.futures import ThreadPoolExecutor

VERIF = os.path.dirname(os.path.dirname(os.path.abspath(__file__)))


def _scratch_root():
    for d in ("/dev/shm", os.environ.get("TMPDIR") or "", tempfile.gettempdir()):
        if d and os.path.isdir(d) and os.access(d, os.W_OK):
            return d
    return tempfile.gettempdir()


def _run_variant(args):
    pid, repo, kind, vdir = args
    patch = os.path.join(vdir, "patch.diff")
    tmp = tempfile.mkdtemp(prefix="sa_selftest_", dir=_scratch_root())
    try:
        shutil.copytree(os.path.join(repo, "spec_classes"), os.path.join(tmp, "spec_classes"),
                        ignore=shutil.ignore_patterns("__pycache__"))
        r = subprocess.run(["patch", "-p1", "-s", "-F0", "--no-backup-if-mismatch", "-i", patch], cwd=tmp,
                           capture_output=True, text=True)
        if r.returncode:
            return (kind, os.path.basename(vdir), "skipped", "patch does not apply to the current tree")
        env = {**os.environ, "SA_NO_EVIDENCE": "1", "TMPDIR": tmp, "SA_SERIAL": "1", "SA_SELFTEST_CHILD": "1"}
        r = subprocess.run([sys.executable, os.path.join(VERIF, "check.py"), pid, "--tier", "quick", "--repo", tmp],
                           capture_output=True, text=True, env=env)
        first = next((l.strip() for l in r.stdout.splitlines() if l.startswith("  C") or l.startswith("ANALYSIS")), "")
        return (kind, os.path.basename(vdir), {0: "pass", 1: "violation"}.get(r.returncode, "analysis-error"), first[:220])
    finally:
        shutil.rmtree(tmp, ignore_errors=True)


def _patch_files(patch_path):
    out = set()
    try:
        for line in open(patch_path):
            if line.startswith("+++ b/") or line.startswith("--- a/"):
                out.add(line[6:].strip())
    except OSError:
        pass
    return out


def run(pid: str, repo: str, main_verdict: str, jobs: int = 16, consulted_files=None, others_sample: int = 6):
    """main_verdict: 'pass' | 'violation' of the unmodified tree.
    consulted_files: files the property is anchored in / whose functions the check interpreted.  Benign variants that
    touch one of them are always replayed; of the remaining ones a fixed sample (first `others_sample` by name) is
    replayed as a control (all of them with SA_SELFTEST_FULL=1)."""
    seeds = sorted(d for d in os.listdir(os.path.join(VERIF, "seeded")) if d.startswith(pid + "-")) \
        if os.path.isdir(os.path.join(VERIF, "seeded")) else []
    benign = sorted(os.listdir(os.path.join(VERIF, "benign"))) if os.path.isdir(os.path.join(VERIF, "benign")) else []
    uncovered = set()
    unc = os.path.join(VERIF, "seeded", "UNCOVERED")
    if os.path.exists(unc):
        uncovered = {l.split()[0] for l in open(unc) if l.strip() and not l.startswith("#")}
    tasks = [(pid, repo, "breaking", os.path.join(VERIF, "seeded", d)) for d in seeds
             if os.path.exists(os.path.join(VERIF, "seeded", d, "patch.diff"))]
    relevant, others = [], []
    for d in benign:
        pth = os.path.join(VERIF, "benign", d, "patch.diff")
        if not os.path.exists(pth):
            continue
        if consulted_files is None or os.environ.get("SA_SELFTEST_FULL") or (_patch_files(pth) & set(consulted_files)):
            relevant.append(d)
        else:
            others.append(d)
    chosen = relevant + others[:others_sample]
    tasks += [(pid, repo, "benign", os.path.join(VERIF, "benign", d)) for d in chosen]
    with ThreadPoolExecutor(jobs) as ex:
        results = list(ex.map(_run_variant, tasks))
    out = {"selection": {"benign_catalogued": len(benign), "benign_touching_consulted_files": len(relevant), "control_sample": len(chosen) - len(relevant),
                         "consulted_files": sorted(consulted_files or [])},
           "breaking": {"total": 0, "detected": 0, "skipped": 0, "declared_uncovered": 0, "missed": []},
           "benign": {"total": 0, "same_verdict": 0, "skipped": 0, "alarms": []}, "variants": []}
    for kind, name, verdict, line in results:
        out["variants"].append({"kind": kind, "variant": name, "verdict": verdict, "first_report": line})
        b = out[kind]
        b["total"] += 1
        if verdict == "skipped":
            b["skipped"] += 1
        elif kind == "breaking":
            if verdict == "violation":
                b["detected"] += 1
            elif name in uncovered:
                b["declared_uncovered"] += 1
            else:
                b["missed"].append(f"{name}: {verdict} {line}")
        else:
            if verdict == main_verdict:
                b["same_verdict"] += 1
            else:
                b["alarms"].append(f"{name}: {verdict} {line}")
    return out
