"""Structural rules added after round 5 of independently written breaking changes.  Each is a necessary condition read
from the shape of one function (after substituting single-assignment local aliases); each is shared by the properties
whose behaviour depends on it.  All of them raise AnalysisError when their anchor has vanished."""
from __future__ import annotations

import ast

from ..model import AnalysisError
from ..report import Report, Violation
from . import boolfn
from .base import walk_own, walk_own_all, with_private_callees


def _dealias(fnode, expr):
    from .c17 import _dealias as d
    return d(fnode, expr)


def _subst(fnode, expr, depth=4):
    """Source of `expr` with single-assignment local names replaced by the expression they were bound to (any
    expression kind; used only to *read* conditions, never to reason about evaluation order)."""
    import copy as _copy
    assigns = {}
    for n in ast.walk(fnode):
        if isinstance(n, ast.Assign) and len(n.targets) == 1 and isinstance(n.targets[0], ast.Name):
            assigns.setdefault(n.targets[0].id, []).append(n.value)
    params = {a.arg for a in ast.walk(fnode) if isinstance(a, ast.arg)}

    class Sub(ast.NodeTransformer):
        d = 0

        def visit_Name(self, node):
            vs = assigns.get(node.id)
            if vs and len(vs) == 1 and isinstance(node.ctx, ast.Load) and node.id not in params and self.d < depth \
                    and node.id not in {x.id for x in ast.walk(vs[0]) if isinstance(x, ast.Name)}:
                self.d += 1
                try:
                    return self.visit(_copy.deepcopy(vs[0]))
                finally:
                    self.d -= 1
            return node
    if isinstance(expr, str):
        expr = ast.parse(expr, mode="eval").body
    return ast.unparse(Sub().visit(_copy.deepcopy(expr)))


def _desc(rep, rule, text):
    """Rule ids are shared with older rules of the same property: descriptions accumulate instead of replacing."""
    old = rep.rules.get(rule)
    rep.rules[rule] = text if not old or text in old else f"{old}; {text}"


def _guards(fnode, node):
    from .c16 import _guards_of
    return _guards_of(fnode, node)


def _v(rep, rule, key, msg, fi, node=None, fn=None):
    rep.violate(Violation(rule, f"{rule}|{key}", msg, f"{fi.module.relpath}:{getattr(node, 'lineno', fi.node.lineno)}",
                          fn or fi.qualname.split(":")[-1]))


def _calls(fnode, suffix):
    return [n for n in ast.walk(fnode) if isinstance(n, ast.Call) and ast.unparse(n.func).split(".")[-1] == suffix]


def _nested(fi, name):
    for n in ast.walk(fi.node):
        if isinstance(n, ast.FunctionDef) and n.name == name and n is not fi.node:
            return n
    return None


# ------------------------------------------------------------------------------------------------ build_attr_spec
def build_attr_spec_rules(ctx, rep: Report, rule: str, aspects=("dnc", "target")):
    """spec_class.build_attr_spec:
    dnc    - the per-attribute do_not_copy flag handed in (decorator level) is only ever *raised* by the declared
             Attr(...): an assignment to it is the constant True or keeps the incoming value as an `or` operand;
    target - the class default is planted on the class being decorated (`spec_cls`), never on the inherited owner."""
    _desc(rep, rule, "build_attr_spec: do_not_copy is only raised by the declaration; the default is set on spec_cls")
    fi = ctx.p.find_function("spec_class.build_attr_spec")
    params = [a.arg for a in fi.node.args.args + fi.node.args.kwonlyargs]
    if "do_not_copy" not in params or "spec_cls" not in params:
        raise AnalysisError(f"{rule}: build_attr_spec no longer has the parameters spec_cls / do_not_copy")
    bad = []
    if "dnc" in aspects:
        for f, n in walk_own_all(ctx.p, fi):
            if isinstance(n, ast.Assign) and any(isinstance(t, ast.Name) and t.id == "do_not_copy" for t in n.targets):
                v = n.value
                ok = (isinstance(v, ast.Constant) and v.value is True) or \
                     (isinstance(v, ast.BoolOp) and isinstance(v.op, ast.Or) and any(isinstance(x, ast.Name) and x.id == "do_not_copy" for x in v.values))
                rep.oblige(rule, f"build_attr_spec: do_not_copy = {ast.unparse(v)[:40]}", ok)
                if not ok:
                    bad.append((n, f"`do_not_copy = {ast.unparse(v)}` replaces the decorator-level setting: an attribute named in `@spec_class(do_not_copy=[...])` whose value is an `Attr(...)` without the flag is deep-copied by every helper"))
    if "target" in aspects:
        sets = [n for f, n in walk_own_all(ctx.p, fi) if isinstance(n, ast.Call) and isinstance(n.func, ast.Name) and n.func.id == "setattr"]
        if not sets:
            raise AnalysisError(f"{rule}: build_attr_spec no longer sets the class default")
        for n in sets:
            tgt = ast.unparse(n.args[0]) if n.args else "?"
            ok = tgt == "spec_cls"
            rep.oblige(rule, f"build_attr_spec: setattr({tgt}, ...)", ok)
            if not ok:
                bad.append((n, f"the class-level default is written onto `{tgt}` instead of the class being decorated: re-declaring an inherited attribute in a subclass changes the parent (and, lazily, depends on which class is used first)"))
    for n, b in bad:
        _v(rep, rule, f"build_attr_spec|{b[:40]}", f"spec_class.build_attr_spec: {b}", fi, n)


def refresh_rules(ctx, rep: Report, rule: str):
    """bootstrap's refresh loop of inherited Attr specs: the rebuild is triggered by the class *declaring* the name
    (`attr in spec_cls.__dict__` / vars) or by a changed do_not_copy, and the spec is rebuilt for the class being decorated."""
    _desc(rep, rule, "refresh of inherited specs: trigger = own-namespace declaration or changed do_not_copy; rebuilt for spec_cls")
    bs = ctx.p.find_function("spec_class.bootstrap")
    found = False
    for f, loop in walk_own_all(ctx.p, bs):
        if not (isinstance(loop, ast.For) and "attrs.items()" in ast.unparse(loop.iter)):
            continue
        calls = [c for c in ast.walk(loop) if isinstance(c, ast.Call) and ast.unparse(c.func).endswith("build_attr_spec")]
        if not calls:
            continue
        found = True
        for c in calls:
            first = ast.unparse(c.args[0]) if c.args else next((ast.unparse(k.value) for k in c.keywords if k.arg == "spec_cls"), "?")
            ok = first == "spec_cls"
            rep.oblige(rule, f"refresh: build_attr_spec({first}, ...)", ok)
            if not ok:
                _v(rep, rule, "refresh|class", f"spec_class.bootstrap rebuilds an inherited attribute for `{first}` instead of the class being decorated: the subclass's own declaration (default, invalidated_by of its property, preparer) is ignored", f, c, "spec_class.bootstrap")
            conds = " && ".join(_guards(f.node, c))
            conds_d = " && ".join(_subst(f.node, g) for g in _guards(f.node, c))
            own = ("in spec_cls.__dict__" in conds_d or "in vars(spec_cls)" in conds_d)
            ident = "getattr(spec_cls" in conds_d
            ok = own and not ident
            rep.oblige(rule, "refresh: trigger", ok, conds[:120])
            if not ok:
                _v(rep, rule, "refresh|trigger", f"spec_class.bootstrap decides whether to rebuild an inherited attribute from `{conds[:100]}` rather than from the class's own namespace: specs are rebuilt (losing compare/repr/init/invalidated_by) for subclasses that declare nothing", f, c, "spec_class.bootstrap")
    if not found:
        raise AnalysisError(f"{rule}: refresh loop over inherited attributes not found in bootstrap")


def options_independent(ctx, rep: Report, rule: str):
    """bootstrap applies each decorator option (`metadata.<opt> = self.<opt>`) under a condition that mentions only that
    option: an `elif` chain makes one option's presence suppress another."""
    _desc(rep, rule, "each decorator option override in bootstrap is guarded by its own option only")
    bs = ctx.p.find_function("spec_class.bootstrap")
    n = 0
    for f, s in walk_own_all(ctx.p, bs):
        if isinstance(s, ast.Assign) and len(s.targets) == 1 and isinstance(s.targets[0], ast.Attribute) \
                and isinstance(s.value, ast.Attribute) and isinstance(s.value.value, ast.Name) and s.value.value.id == "self" \
                and s.targets[0].attr == s.value.attr and ast.unparse(s.targets[0].value) == "metadata":
            opt = s.value.attr
            n += 1
            others = set()
            for g in _guards(f.node, s):
                for x in ast.walk(ast.parse(g, mode="eval")):
                    if isinstance(x, ast.Attribute) and isinstance(x.value, ast.Name) and x.value.id == "self" and x.attr != opt:
                        others.add(x.attr)
            ok = not others
            rep.oblige(rule, f"bootstrap: metadata.{opt}", ok, f"guards mention {sorted(others)}")
            if not ok:
                _v(rep, rule, f"option|{opt}", f"spec_class.bootstrap applies the decorator option `{opt}` only depending on other options ({', '.join(sorted(others))}): `@spec_class({sorted(others)[0]}=..., {opt}=...)` silently drops `{opt}`", f, s, "spec_class.bootstrap")
    if n < 2:
        # table-driven form: for name in <tuple of option names>: if getattr(self, name) is not MISSING: setattr(metadata, name, ...)
        loops = [s_ for f_, s_ in walk_own_all(ctx.p, bs) if isinstance(s_, ast.For) and
                 any(isinstance(c_, ast.Call) and ast.unparse(c_.func) == "setattr" and c_.args and ast.unparse(c_.args[0]) == "metadata" for c_ in ast.walk(s_))]
        if not loops:
            raise AnalysisError(f"{rule}: decorator option overrides not found in bootstrap ({n})")
        for lp in loops:
            var = lp.target.id if isinstance(lp.target, ast.Name) else None
            for c_ in ast.walk(lp):
                if isinstance(c_, ast.Call) and ast.unparse(c_.func) == "setattr" and c_.args and ast.unparse(c_.args[0]) == "metadata":
                    others = set()
                    for g in _guards(lp, c_):
                        for x in ast.walk(ast.parse(g, mode="eval")):
                            if isinstance(x, ast.Attribute) and isinstance(x.value, ast.Name) and x.value.id == "self":
                                others.add(x.attr)
                    ok = not others and var is not None and len(c_.args) >= 2 and ast.unparse(c_.args[1]) == var
                    rep.oblige(rule, "bootstrap: option table loop", ok, f"guards mention {sorted(others)}")
                    if not ok:
                        _v(rep, rule, "option|loop", f"spec_class.bootstrap applies the decorator options in a loop whose guard depends on other options ({', '.join(sorted(others))})", bs, c_, "spec_class.bootstrap")


# ------------------------------------------------------------------------------------------------ generated dunder methods
def setattr_rules(ctx, rep: Report, rule: str, aspects=("forward", "prepare", "default")):
    """Generated __setattr__ / __delattr__ (closures of SetAttrMethod / DelAttrMethod.build_method, plus the private
    helpers of those classes):
    forward - `force` / `skip_invalidation` reach mutate_attr / invalidate_attrs exactly as received (or as constants);
    prepare - in __setattr__ the value is prepared exactly when the attribute is managed (path condition = the spec exists);
    default - in __delattr__ the restored default comes from lookup_default_value(<instance>.__class__) only."""
    _desc(rep, rule, "generated __setattr__/__delattr__: flags forwarded verbatim; prepare iff managed; default via lookup_default_value")
    sfi = ctx.p.find_function("SetAttrMethod.build_method")
    dfi = ctx.p.find_function("DelAttrMethod.build_method")
    sn, dn = _nested(sfi, "__setattr__"), _nested(dfi, "__delattr__")
    if sn is None or dn is None:
        raise AnalysisError(f"{rule}: generated __setattr__/__delattr__ not found")

    def scope(fi, fn):
        """function nodes that make up the generated method: the closure + every other method of the descriptor class
        + private module-level helpers they call"""
        nodes = [fn]
        if fi.cls is not None:
            for name_, defs in fi.cls.methods.items():
                for d in defs:
                    if d.node is not fi.node:
                        nodes.append(d.node)
        for g in with_private_callees(ctx.p, fi):
            if g is not fi and g.node not in nodes:
                nodes.append(g.node)
        return nodes
    if "forward" in aspects:
        for fi, fn in ((sfi, sn), (dfi, dn)):
            cnt = 0
            for node in scope(fi, fn):
                params = {a.arg for a in node.args.args + node.args.kwonlyargs}
                for c in ast.walk(node):
                    if isinstance(c, ast.Call):
                        for k in c.keywords:
                            if k.arg in ("force", "skip_invalidation") and k.arg in params:
                                cnt += 1
                                ok = isinstance(k.value, ast.Constant) or (isinstance(k.value, ast.Name) and k.value.id == k.arg)
                                rep.oblige(rule, f"{fn.name}: {k.arg}={ast.unparse(k.value)[:40]}", ok)
                                if not ok:
                                    _v(rep, rule, f"{fn.name}|{k.arg}", f"generated {fn.name}: `{k.arg}={ast.unparse(k.value)}` is not the caller's flag: assignment / deletion no longer invalidates (or guards) exactly like the corresponding `_inplace=True` helper", fi, k.value, f"{fi.cls.name}.{fn.name}" if fi.cls else fn.name)
            rep.oblige(rule, f"{fn.name}: forwarded flags inspected", True, f"{cnt}")
    if "prepare" in aspects:
        preps = [c for c in ast.walk(sn) if isinstance(c, ast.Call) and ast.unparse(c.func).split(".")[-1] == "prepare_attr_value"]
        if not preps:
            raise AnalysisError(f"{rule}: __setattr__ no longer calls prepare_attr_value")
        parents = {id(ch): p_ for p_ in ast.walk(sn) for ch in ast.iter_child_nodes(p_)}
        managed_forms = ("attr_spec", "attr_spec is not None", "self.__spec_class__.attrs.get(attr)", "self.__spec_class__.attrs.get(attr) is not None",
                         "attr in self.__spec_class__.attrs")

        def classify(n_):
            t = _subst(sn, n_)
            if t in managed_forms:
                return ("managed", True)
            if t in ("self.__spec_class__.attrs.get(attr) is None", "attr not in self.__spec_class__.attrs"):
                return ("managed", False)
            return None
        for c in preps:
            def holds(s_, c=c):
                return isinstance(s_, (ast.Expr, ast.Assign, ast.Return, ast.AugAssign, ast.AnnAssign)) and any(x is c for x in ast.walk(s_))
            rc = boolfn.reach_condition(sn.body, holds)
            conds = [] if rc is None or rc is True else [rc]
            x = c
            while id(x) in parents:
                par = parents[id(x)]
                if isinstance(par, ast.IfExp):
                    if par.body is x:
                        conds.append(par.test)
                    elif par.orelse is x:
                        conds.append(ast.UnaryOp(op=ast.Not(), operand=par.test))
                x = par
            txt = " and ".join(_subst(sn, g) for g in conds)
            try:
                cond = conds[0] if len(conds) == 1 else ast.BoolOp(op=ast.And(), values=conds)
                ok = rc is not None and bool(conds) and boolfn.table(cond, classify, ["managed"]) == {(False,): False, (True,): True}
            except ValueError:
                ok = False
            rep.oblige(rule, "__setattr__: prepare iff managed", ok, txt[:100])
            if not ok:
                _v(rep, rule, "__setattr__|prepare", f"generated __setattr__ prepares the value only when `{txt[:100]}`: some managed attributes are stored unprepared by assignment and by the constructor", sfi, c, "SetAttrMethod.__setattr__")
    if "default" in aspects:
        nodes = scope(dfi, dn)
        reads = [x for node in nodes for x in ast.walk(node) if isinstance(x, ast.Attribute) and x.attr in ("default", "default_value", "default_factory") and isinstance(x.ctx, ast.Load)]
        looks = [c for node in nodes for c in ast.walk(node) if isinstance(c, ast.Call) and ast.unparse(c.func).endswith("lookup_default_value")]
        if not looks and not reads:
            raise AnalysisError(f"{rule}: __delattr__ no longer calls lookup_default_value")

        def cls_of_instance(a):
            return (isinstance(a, ast.Attribute) and a.attr == "__class__" and isinstance(a.value, ast.Name)) or \
                   (isinstance(a, ast.Call) and ast.unparse(a.func) == "type" and len(a.args) == 1 and isinstance(a.args[0], ast.Name))
        ok = not reads and all(c.args and cls_of_instance(c.args[0]) for c in looks)
        rep.oblige(rule, "__delattr__: default source", ok)
        if not ok:
            what = ast.unparse(reads[0]) if reads else ast.unparse(looks[0])
            _v(rep, rule, "__delattr__|default", f"generated __delattr__ takes the restored default from `{what}` on some path instead of `lookup_default_value(self.__class__)`: overrides declared by (plain) subclasses are ignored by del / reset", dfi, reads[0] if reads else looks[0], "DelAttrMethod.__delattr__")


def invalidate_no_force(ctx, rep: Report, rule: str):
    """invalidate_attrs resets dependants through the ordinary deletion (which re-installs a fresh default); `force=True`
    is the raw-delete route of the constructor and leaves the attribute to fall back to the *shared* class default."""
    _desc(rep, rule, "invalidate_attrs deletes dependants without force=True")
    fi = ctx.p.find_function("invalidate_attrs")
    n = 0
    for f, c in walk_own_all(ctx.p, fi):
        if isinstance(c, ast.Call) and (ast.unparse(c.func) == "delattr" or ast.unparse(c.func).endswith("__delattr__")):
            n += 1
            forced = [k for k in c.keywords if k.arg == "force" and not (isinstance(k.value, ast.Constant) and k.value.value is False)]
            rep.oblige(rule, f"invalidate_attrs: {ast.unparse(c)[:50]}", not forced)
            if forced:
                _v(rep, rule, "force", f"invalidate_attrs deletes a dependant with `{ast.unparse(c)[:60]}`: the forced route removes the value without restoring a fresh default, so the attribute reads the shared class-level default object afterwards (and frozen / masked handling is bypassed)", f, c, "invalidate_attrs")
    if n == 0:
        raise AnalysisError(f"{rule}: no deletion found in invalidate_attrs")


def mutate_value_inplace_sites(ctx, rep: Report, rule: str):
    """Who may ask mutate_value to work in place: only the top-level update/transform (on `self`, which they have copied
    themselves).  Everywhere else the value handed over is the receiver's current value or a caller's object."""
    _desc(rep, rule, "mutate_value(inplace=...) is non-False only at the enumerated top-level sites")
    allowed = {"UpdateMethod.update", "TransformMethod.transform"}
    n = 0
    from .base import short_name, site_allowed
    for fi in ctx.p.iter_functions():
        if fi.is_lambda:
            continue
        for c in walk_own(fi.node):
            if isinstance(c, ast.Call) and ast.unparse(c.func).split(".")[-1] == "mutate_value":
                n += 1
                kw = next((k.value for k in c.keywords if k.arg == "inplace"), None)
                if kw is None or (isinstance(kw, ast.Constant) and kw.value is False):
                    rep.oblige(rule, f"{short_name(fi)}: inplace=False", True)
                    continue
                short = short_name(fi)
                first = ast.unparse(c.args[0]) if c.args else next((ast.unparse(k.value) for k in c.keywords if k.arg in ("old_value", "value")), "?")
                ok = (short in allowed and first == "self") or (short not in allowed and site_allowed(ctx, short, lambda s: s in allowed))
                rep.oblige(rule, f"{short}: inplace={ast.unparse(kw)[:30]}", ok)
                if not ok:
                    _v(rep, rule, f"{short}", f"{short} calls mutate_value(`{first}`, inplace={ast.unparse(kw)}): nested attributes are written onto the object it was handed (the receiver's current value, an alias target or the caller's item) instead of onto a copy", fi, c, short)
    if n < 3:
        raise AnalysisError(f"{rule}: only {n} call sites of mutate_value found")


def mutate_attr_writes(ctx, rep: Report, rule: str):
    """mutate_attr: between the copy step and the raw write nothing returns: every call that gets past the
    frozen / sentinel guards stores the value (a write of an equal value still replaces the object and invalidates)."""
    _desc(rep, rule, "mutate_attr has no early return that skips the write")
    fi = ctx.p.find_function("mutate_attr")
    rets = [n for n in walk_own(fi.node) if isinstance(n, ast.Return)]
    writes = [n.lineno for n in walk_own(fi.node) if isinstance(n, ast.Call) and ("setattr" in ast.unparse(n.func) or "__raw__" in ast.unparse(n.func))]
    if not writes:
        raise AnalysisError(f"{rule}: raw write not found in mutate_attr")
    first_write = min(writes)
    markers = {"MISSING", "EMPTY", "UNCHANGED"}
    marker_consts = set()
    for st_ in fi.module.tree.body if hasattr(fi.module, "tree") else []:
        if isinstance(st_, ast.Assign) and len(st_.targets) == 1 and isinstance(st_.targets[0], ast.Name) and isinstance(st_.value, (ast.Tuple, ast.Set, ast.List)) \
                and st_.value.elts and all(isinstance(e_, ast.Name) and e_.id in markers for e_ in st_.value.elts):
            marker_consts.add(st_.targets[0].id)

    def marker_only(g):
        t = ast.parse(g, mode="eval")
        bound = {n_.id for c_ in ast.walk(t) if isinstance(c_, ast.comprehension) for n_ in ast.walk(c_.target) if isinstance(n_, ast.Name)}
        names = {n_.id for n_ in ast.walk(t) if isinstance(n_, ast.Name)}
        if any(isinstance(n_, ast.Attribute) for n_ in ast.walk(t)):
            return False
        if any(isinstance(n_, ast.Compare) and any(isinstance(o_, (ast.Eq, ast.NotEq)) for o_ in n_.ops) for n_ in ast.walk(t)):
            return False
        return "value" in names and names <= ({"value", "any", "all"} | markers | marker_consts | bound)
    bad = []
    for r in rets:
        if r.lineno > first_write:
            continue
        gs = _guards(fi.node, r)
        conds = " && ".join(gs)
        # legitimate early returns test only the value against the argument markers
        ok = bool(gs) and all(marker_only(g) for g in gs)
        rep.oblige(rule, f"mutate_attr: return under `{conds[:50]}`", ok)
        if not ok:
            bad.append((r, conds))
    for r, conds in bad:
        _v(rep, rule, f"return|{conds[:40]}", f"mutate_attr returns without writing when `{conds[:100]}`: the old object stays in place (a reset keeps the caller's / the origin's object) and dependants are not invalidated", fi, r, "mutate_attr")
    rep.oblige(rule, "mutate_attr: returns inspected", True, f"{len(rets)}")


# ------------------------------------------------------------------------------------------------ constructor
def init_spec_source(ctx, rep: Report, rule: str):
    """InitMethod.init decides copying / forwarding per attribute from the *instance's* metadata (the class being
    constructed), never from a parent's table, which may carry different options for the same name."""
    _desc(rep, rule, "InitMethod.init reads per-attribute options from the instance metadata")
    from ..scenarios import core_impl
    fi = core_impl(ctx.H, "init").impl
    n = 0
    for f, x in walk_own_all(ctx.p, fi):
        if isinstance(x, ast.Attribute) and x.attr in ("do_not_copy", "init", "is_masked") and isinstance(x.ctx, ast.Load):
            base = ast.unparse(x.value)
            if isinstance(x.value, ast.Name):
                asg = [a_.value for a_ in ast.walk(f.node) if isinstance(a_, ast.Assign) and len(a_.targets) == 1
                       and isinstance(a_.targets[0], ast.Name) and a_.targets[0].id == x.value.id]
                if len(asg) == 1:
                    base = ast.unparse(asg[0])
            if "attrs" not in base:
                continue
            n += 1
            ok = "parent" not in base
            rep.oblige(rule, f"InitMethod.init: {base[:40]}.{x.attr}", ok)
            if not ok:
                _v(rep, rule, f"{x.attr}", f"InitMethod.init reads `.{x.attr}` from `{base}` (a parent's table) instead of the instance's own metadata: when the subclass and the parent disagree on the option, the caller's argument is handed on unprotected / wrongly forwarded", f, x, "InitMethod.init")
    if n == 0:
        raise AnalysisError(f"{rule}: no per-attribute option reads found in InitMethod.init")


# ------------------------------------------------------------------------------------------------ helpers
def varkw_not_rebound(ctx, rep: Report, rule: str):
    """The **keywords of a helper implementation reach preparation as given: the parameter is not re-bound to a
    filtered copy (None / falsy values are values)."""
    _desc(rep, rule, "helper implementations do not re-bind / filter their **keywords")
    n = 0
    for hid, h in sorted(ctx.helpers.items()):
        a = h.impl.node.args
        if a.kwarg is None:
            continue
        n += 1
        name = a.kwarg.arg
        reb = [s for s in walk_own(h.impl.node) if isinstance(s, (ast.Assign, ast.AugAssign, ast.AnnAssign))
               and any(isinstance(t, ast.Name) and t.id == name for t in (s.targets if isinstance(s, ast.Assign) else [s.target]))]
        rep.oblige(rule, f"{hid}: **{name}", not reb)
        for s in reb:
            _v(rep, rule, f"{hid}", f"{hid} re-binds its **{name} to `{ast.unparse(s.value)[:70]}` before forwarding them: some of the nested keywords the caller passed (e.g. `x=None`) are dropped silently", h.impl, s, hid)
    if n == 0:
        raise AnalysisError(f"{rule}: no helper with **keywords found")


def forward_verbatim(ctx, rep: Report, rule: str, prefixes=("methods", "collections")):
    """A keyword argument whose name is a parameter of the enclosing function (with or without the leading underscore
    of the public spelling) is forwarded as that parameter or as a constant - not as an expression that makes one flag
    depend on another."""
    _desc(rep, rule, "flags forwarded between helper layers are forwarded verbatim")
    EXC = {}
    n = 0
    from .base import short_name
    for fi in ctx.p.iter_functions():
        if fi.is_lambda or not any(fi.module.name.startswith(f"{ctx.p.package}.{p_}") for p_ in prefixes):
            continue
        a = fi.node.args
        params = {x.arg for x in a.posonlyargs + a.args + a.kwonlyargs}
        for c in walk_own(fi.node):
            if not isinstance(c, ast.Call):
                continue
            for k in c.keywords:
                if k.arg in ("replace", "insert", "inplace", "force", "skip_invalidation", "by_index", "type_check") and \
                        (k.arg in params or "_" + k.arg in params):
                    n += 1
                    v = k.value
                    ok = isinstance(v, ast.Constant) or (isinstance(v, ast.Name) and v.id in (k.arg, "_" + k.arg))
                    key = (short_name(fi), k.arg)
                    if not ok and key in EXC:
                        ok = True
                    rep.oblige(rule, f"{short_name(fi)}: {k.arg}={ast.unparse(v)[:30]}", ok)
                    if not ok:
                        _v(rep, rule, f"{short_name(fi)}|{k.arg}", f"{short_name(fi)} forwards `{k.arg}={ast.unparse(v)}` instead of the flag it received: the documented meaning of one flag now depends on another", fi, v, short_name(fi))
    if n < 5:
        raise AnalysisError(f"{rule}: only {n} forwarded flags found")


# ------------------------------------------------------------------------------------------------ properties
def property_rules(ctx, rep: Report, rule: str, aspects=("order", "inv", "key", "name")):
    """spec_property / classproperty descriptors:
    order - in spec_property.__get__ the type check of the prepared getter result precedes the cache store;
    inv   - __spec_class_invalidated_by__ reports the declared dependencies on every path (no constant early return);
    key   - classproperty._cache_key depends on cache_per_subclass only;
    name  - __set_name__ binds owner / attr_name unconditionally."""
    _desc(rep, rule, "spec_property: check before cache store; dependencies always reported; cache key by cache_per_subclass; __set_name__ unconditional")
    if "order" in aspects:
        fi = ctx.p.find_function("spec_property.__get__")
        stores = [(f, n) for f, n in walk_own_all(ctx.p, fi) if isinstance(n, ast.Assign) and any(isinstance(t, ast.Subscript) and "__dict__" in ast.unparse(t.value) for t in n.targets)]
        checks = [(f, n) for f, n in walk_own_all(ctx.p, fi) if isinstance(n, ast.Call) and ast.unparse(n.func).split(".")[-1] == "check_type"]
        if not stores or not checks:
            raise AnalysisError(f"{rule}: cache store / type check not found in spec_property.__get__")
        from .base import static_callees

        from .base import short_name

        def private(h_):
            last = short_name(h_).split(".")[-1]
            return h_.module is fi.module and last.startswith("_") and not last.startswith("__")

        def has_check(g, depth=3):
            if not private(g):
                return False
            if any(isinstance(n_, ast.Call) and ast.unparse(n_.func).split(".")[-1] == "check_type" for n_ in ast.walk(g.node)):
                return True
            return depth > 0 and any(has_check(h_, depth - 1) for _n, h_ in static_callees(ctx.p, g) if h_ is not g)
        for f, s in stores:
            pos = [c.lineno for g, c in checks if g is f]
            pos += [n_.lineno for n_, h_ in static_callees(ctx.p, f) if h_ is not f and has_check(h_)]
            if f is not fi and not pos:
                # the store sits in a private helper of __get__: judge the call of that helper in __get__ instead
                calls_ = [n_.lineno for n_, h_ in static_callees(ctx.p, fi) if h_ is f]
                pos_fi = [c.lineno for g, c in checks if g is fi] + [n_.lineno for n_, h_ in static_callees(ctx.p, fi) if h_ is not f and has_check(h_)]
                ok = bool(calls_) and bool(pos_fi) and min(pos_fi) < min(calls_)
            else:
                ok = bool(pos) and min(pos) < s.lineno
            rep.oblige(rule, "spec_property.__get__: check precedes cache store", ok)
            if not ok:
                _v(rep, rule, "order", "spec_property.__get__ stores the getter result in the instance cache before checking its type: a rejected value stays cached on the receiver (the failing read / helper call changed it) and every later read returns it unchecked", f, s, "spec_property.__get__")
    if "inv" in aspects:
        n = 0
        for cname in ("spec_property", "classproperty", "_spec_property_base"):
            try:
                ci = ctx.p.find_class(cname)
            except Exception:
                continue
            for d in ci.methods.get("__spec_class_invalidated_by__", []):
                n += 1
                rets = [r for r in walk_own(d.node) if isinstance(r, ast.Return)]
                bad = [r for r in rets if r.value is None or isinstance(r.value, (ast.Constant, ast.Tuple, ast.List, ast.Set)) and "invalidated_by" not in ast.unparse(r.value)
                       and not all("invalidated_by" in g for g in _guards(d.node, r))]
                rep.oblige(rule, f"{cname}.__spec_class_invalidated_by__", not bad)
                for r in bad:
                    _v(rep, rule, f"inv|{cname}", f"{cname}.__spec_class_invalidated_by__ returns `{ast.unparse(r.value) if r.value else None}` under `{' && '.join(_guards(d.node, r))[:80]}`: a property declared with invalidated_by is not registered as a dependant, so invalidation does not cascade through it", d, r, f"{cname}.__spec_class_invalidated_by__")
        if n == 0:
            raise AnalysisError(f"{rule}: __spec_class_invalidated_by__ not found")
    if "key" in aspects:
        ci = ctx.p.find_class("classproperty")
        exprs = []
        for name_, defs in ci.methods.items():
            for d in defs:
                if name_ == "_cache_key":
                    exprs += [(d, r.value) for r in walk_own(d.node) if isinstance(r, ast.Return) and r.value is not None]
                else:
                    exprs += [(d, a_.value) for a_ in walk_own(d.node) if isinstance(a_, ast.Assign) and len(a_.targets) == 1 and isinstance(a_.targets[0], ast.Name)
                              and "key" in a_.targets[0].id and isinstance(a_.value, ast.IfExp)]
        if not exprs:
            raise AnalysisError(f"{rule}: cache-key computation of classproperty not found")
        for d, e in exprs:
            reads = {x.attr for x in ast.walk(e) if isinstance(x, ast.Attribute) and isinstance(x.value, ast.Name) and x.value.id == "self" and not
                     any(isinstance(c_, ast.Call) and c_.func is x for c_ in ast.walk(e))}
            ok = reads <= {"cache_per_subclass"}
            rep.oblige(rule, f"classproperty cache key in {d.node.name}", ok, f"reads {sorted(reads)}")
            if not ok:
                _v(rep, rule, "key", f"the classproperty cache key depends on {sorted(reads - {'cache_per_subclass'})}: with cache_per_subclass=True, overrides (and cached values) of different classes share one slot for some flag combinations", d, e, f"classproperty.{d.node.name}")
    if "name" in aspects:
        fi = ctx.p.find_function("_spec_property_base.__set_name__")
        for field in ("owner", "attr_name"):
            asg = [s for s in walk_own(fi.node) if isinstance(s, ast.Assign) and any(ast.unparse(t) == f"self.{field}" for t0 in s.targets
                                                                                      for t in (t0.elts if isinstance(t0, (ast.Tuple, ast.List)) else [t0]))]
            if not asg:
                raise AnalysisError(f"{rule}: __set_name__ no longer binds self.{field}")
            ok = all(not _guards(fi.node, s) for s in asg)
            rep.oblige(rule, f"__set_name__: self.{field}", ok)
            if not ok:
                _v(rep, rule, f"name|{field}", f"_spec_property_base.__set_name__ binds `self.{field}` only conditionally: a property derived with .getter/.setter/.deleter and bound under a new name keeps the original's slot (two properties share one cache / override)", fi, asg[0], "_spec_property_base.__set_name__")


# ------------------------------------------------------------------------------------------------ misc
def collection_kinds(ctx, rep: Report, rule: str):
    """Attr.collection_mutator_type: element helpers exist exactly for *mutable* containers."""
    _desc(rep, rule, "collection_mutator_type tests the Mutable* ABCs")
    fi = ctx.p.find_function("Attr.collection_mutator_type")
    fns = with_private_callees(ctx.p, fi)
    if not any(isinstance(c, ast.Call) and ast.unparse(c.func).split(".")[-1] == "type_match" for g in fns for c in ast.walk(g.node)):
        raise AnalysisError(f"{rule}: collection_mutator_type no longer uses type_match")
    names = {n.id if isinstance(n, ast.Name) else n.attr for g in fns for n in ast.walk(g.node) if isinstance(n, (ast.Name, ast.Attribute))}
    consts = {st_.targets[0].id: st_.value for st_ in fi.module.tree.body if isinstance(st_, ast.Assign) and len(st_.targets) == 1 and isinstance(st_.targets[0], ast.Name)}
    if fi.cls is not None:
        for st_ in fi.cls.node.body:
            if isinstance(st_, ast.Assign) and len(st_.targets) == 1 and isinstance(st_.targets[0], ast.Name):
                consts[st_.targets[0].id] = st_.value
    for n_ in list(names):
        if n_ in consts:
            names |= {x.id if isinstance(x, ast.Name) else x.attr for x in ast.walk(consts[n_]) if isinstance(x, (ast.Name, ast.Attribute))}
    need = {"MutableSequence", "MutableMapping", "MutableSet"}
    ro = {"Set", "Sequence", "Mapping", "Collection", "Iterable", "Container", "AbstractSet", "frozenset", "tuple", "FrozenSet", "Tuple"}
    missing, bad = need - names, ro & names
    ok = not missing and not bad
    rep.oblige(rule, "collection_mutator_type: container kinds", ok, f"missing {sorted(missing)}, read-only {sorted(bad)}")
    if not ok:
        b0 = sorted(bad)[0] if bad else f"not {sorted(missing)[0]}"
        _v(rep, rule, f"kind|{b0}", f"Attr.collection_mutator_type decides on `{b0}` (expected exactly the MutableSequence / MutableMapping / MutableSet ABCs): read-only containers (FrozenSet, Tuple, Mapping …) get with_/update_/transform_/without_<item> helpers, which then call mutating methods on them", fi, None, "Attr.collection_mutator_type")


def new_wrapper_order(ctx, rep: Report, rule: str):
    """The lazy __new__ wrapper triggers bootstrapping (touches cls.__spec_class__) *before* it removes itself: if
    bootstrap raises, the wrapper must still be there for the next attempt."""
    _desc(rep, rule, "lazy __new__ wrapper: bootstrap trigger precedes self-removal")
    call = ctx.p.find_function("spec_class.__call__")
    news = [n for n in ast.walk(call.node) if isinstance(n, ast.FunctionDef) and n.name == "__new__" and
            any(isinstance(w, ast.With) for w in ast.walk(n))]
    if not news:
        raise AnalysisError(f"{rule}: lazy __new__ wrapper not found")
    w = news[0]
    touches = [x.lineno for x in ast.walk(w) if isinstance(x, ast.Attribute) and x.attr == "__spec_class__" and ast.unparse(x.value) == "cls"]
    removals = [x.lineno for x in ast.walk(w) if (isinstance(x, ast.Delete) and "__new__" in ast.unparse(x)) or
                (isinstance(x, ast.Assign) and any(ast.unparse(t).endswith(".__new__") for t in x.targets))]
    if not touches or not removals:
        raise AnalysisError(f"{rule}: trigger / removal not found in the lazy __new__ wrapper")
    ok = min(touches) < min(removals)
    rep.oblige(rule, "lazy __new__ wrapper", ok)
    if not ok:
        _v(rep, rule, "order", "the lazy __new__ wrapper removes itself before it triggers bootstrapping: when the first bootstrap raises (singular-name collision, unresolved annotation) later instantiations skip bootstrapping and return bare instances without helpers", call, w, "spec_class.__call__")


def modules_copyable_sites(ctx, rep: Report, rule: str):
    """Who may hold the module pass-through: only the copy routines themselves.  A wider region runs user code (default
    factories, deleters) while copyreg is patched."""
    _desc(rep, rule, "`with _modules_copyable()` appears only around the copy calls of the enumerated copy routines")
    allowed = {"protect_via_deepcopy", "DeepCopyMethod.deepcopy", "_modules_copyable.__enter__", "_modules_copyable.__exit__"}
    from .base import short_name, site_allowed
    n = 0
    for fi in ctx.p.iter_functions():
        if fi.is_lambda:
            continue
        for wn in walk_own(fi.node):
            if isinstance(wn, ast.Call) and ast.unparse(wn.func).split(".")[-1] == "_modules_copyable":
                n += 1
                short = short_name(fi)
                ok = site_allowed(ctx, short, lambda s: s in allowed)
                rep.oblige(rule, f"{short}: _modules_copyable()", ok)
                if not ok:
                    _v(rep, rule, f"{short}", f"{short} holds `_modules_copyable()` around code that is not a copy (user callbacks run, and other threads can copy modules, while copyreg.dispatch_table is patched; a reducer registered meanwhile is deleted on exit)", fi, wn, short)
    if n == 0:
        raise AnalysisError(f"{rule}: no `with _modules_copyable()` region found")


def remove_by_address(ctx, rep: Report, rule: str):
    """remove_item of the sequence and mapping mutators deletes the *addressed position / key* the extractor returned
    (`del collection[index]`), not an element equal to the one found there (lists may hold equal elements)."""
    _desc(rep, rule, "remove_item deletes collection[<extractor's index>]")
    n = 0
    for cname in ("SequenceMutator", "MappingMutator"):
        ci = ctx.p.find_class(cname)
        defs = ci.methods.get("remove_item")
        if not defs:
            raise AnalysisError(f"{rule}: {cname}.remove_item not found")
        fi = defs[0]
        idx = None
        for f, s in walk_own_all(ctx.p, fi):
            if isinstance(s, ast.Assign) and isinstance(s.value, ast.Call) and ast.unparse(s.value.func).endswith("_extractor") \
                    and isinstance(s.targets[0], ast.Tuple) and isinstance(s.targets[0].elts[0], ast.Name):
                idx = s.targets[0].elts[0].id
            elif isinstance(s, ast.Assign) and isinstance(s.value, ast.Subscript) and isinstance(s.value.value, ast.Call) \
                    and ast.unparse(s.value.value.func).endswith("_extractor") and ast.unparse(s.value.slice) == "0" and isinstance(s.targets[0], ast.Name):
                idx = s.targets[0].id
        dels = [s for f, s in walk_own_all(ctx.p, fi) if isinstance(s, ast.Delete) and any(isinstance(t, ast.Subscript) and ast.unparse(t.value).endswith("collection") for t in s.targets)]
        pops = [c for f, c in walk_own_all(ctx.p, fi) if isinstance(c, ast.Call) and isinstance(c.func, ast.Attribute) and ast.unparse(c.func.value).endswith("collection")
                and c.func.attr in ("pop", "__delitem__") and c.args and ast.unparse(c.args[0]) == idx]
        byval = [c for f, c in walk_own_all(ctx.p, fi) if isinstance(c, ast.Call) and isinstance(c.func, ast.Attribute) and ast.unparse(c.func.value).endswith("collection")
                 and c.func.attr in ("remove", "discard")]
        good = [s for s in dels if idx is None or any(isinstance(t, ast.Subscript) and ast.unparse(t.slice) == idx for t in s.targets)] + pops
        ok = bool(good) and not byval
        n += 1
        rep.oblige(rule, f"{cname}.remove_item", ok)
        if not ok:
            what = ast.unparse(byval[0]) if byval else "no positional deletion"
            _v(rep, rule, f"{cname}", f"{cname}.remove_item removes by value (`{what}`) instead of deleting the addressed position: with equal elements at several positions, `without_<item>(index)` removes the first equal element, not the one at the index", fi, byval[0] if byval else None, f"{cname}.remove_item")
    return n


def repr_order(ctx, rep: Report, rule: str):
    """__repr__/__eq__/__hash__-free rendering of the keyed containers never sorts: keys need not be mutually orderable."""
    _desc(rep, rule, "keyed containers' __repr__ does not sort its items")
    n = 0
    for cname in ("KeyedSet", "KeyedList"):
        ci = ctx.p.find_class(cname)
        for d in ci.methods.get("__repr__", []):
            n += 1
            srt = [c for c in ast.walk(d.node) if isinstance(c, ast.Call) and ast.unparse(c.func) in ("sorted", "min", "max") or
                   isinstance(c, ast.Call) and isinstance(c.func, ast.Attribute) and c.func.attr == "sort"]
            rep.oblige(rule, f"{cname}.__repr__", not srt)
            if srt:
                _v(rep, rule, f"{cname}", f"{cname}.__repr__ orders its items with `{ast.unparse(srt[0])[:60]}`: repr() of an instance holding keys that are not mutually orderable (int and str, None, spec items) raises TypeError", d, srt[0], f"{cname}.__repr__")
    if n == 0:
        raise AnalysisError(f"{rule}: no __repr__ found on the keyed containers")


def nearest_stop(ctx, rep: Report, rule: str):
    """Attr.lookup_default_value: a class along the MRO that defines the name ends the search on every path (a
    function / data descriptor there *masks* the default: MISSING, not the owner's plain default further up)."""
    _desc(rep, rule, "lookup_default_value: every path through `name in cls.__dict__` returns")
    fi = ctx.p.find_function("Attr.lookup_default_value")
    loops = [s for s in walk_own(fi.node) if isinstance(s, ast.For) and "mro" in ast.unparse(s.iter)]
    if not loops:
        raise AnalysisError(f"{rule}: no MRO walk in Attr.lookup_default_value")

    def paths(stmts, guards):
        if not stmts:
            return [(guards, "fall")]
        s0, rest = stmts[0], stmts[1:]
        if isinstance(s0, (ast.Return, ast.Raise)):
            return [(guards, "ret")]
        if isinstance(s0, (ast.Continue, ast.Break)):
            return [(guards, "cont")]
        if isinstance(s0, ast.If):
            t = ast.unparse(s0.test)
            return paths(list(s0.body) + rest, guards + [t]) + paths(list(s0.orelse) + rest, guards + [f"not ({t})"])
        return paths(rest, guards)

    def own_ns(g):
        return "__dict__" in g or "vars(" in g

    def negative(g):
        return own_ns(g) and (" not in " in g) != g.startswith("not (")
    ps = paths(list(loops[0].body), [])
    if not any(any(own_ns(g) and not negative(g) for g in gs) and o == "ret" for gs, o in ps):
        raise AnalysisError(f"{rule}: own-namespace test not found in the MRO walk")
    bad = [(gs, o) for gs, o in ps if o != "ret" and not any(negative(g) for g in gs)]
    rep.oblige(rule, "lookup_default_value: a class defining the name ends the search", not bad, f"{len(ps)} paths through the loop body")
    for gs, o in bad[:1]:
        _v(rep, rule, "fallthrough", f"Attr.lookup_default_value keeps searching further up the MRO after reaching a class that defines the name (path `{' && '.join(gs)[:120]}`): a property / alias / method declared by a (plain) subclass over an inherited attribute gets the parent's plain default written through it at construction and on reset", fi, loops[0], "Attr.lookup_default_value")
