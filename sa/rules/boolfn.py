"""Tiny evaluator of boolean condition ASTs over named atoms (for finite decision tables)."""
import ast
import itertools


def atoms_of(expr, classify):
    """classify(node) -> atom name | None for leaf comparisons; returns set of atom names."""
    out = set()

    def walk(n):
        if isinstance(n, ast.BoolOp):
            for v in n.values:
                walk(v)
        elif isinstance(n, ast.UnaryOp) and isinstance(n.op, ast.Not):
            walk(n.operand)
        else:
            a = classify(n)
            if a is None:
                raise ValueError(f"unclassified condition atom: {ast.unparse(n)}")
            out.add(a[0])
    walk(expr)
    return out


def evaluate(expr, classify, env):
    if isinstance(expr, ast.BoolOp):
        vals = [evaluate(v, classify, env) for v in expr.values]
        return all(vals) if isinstance(expr.op, ast.And) else any(vals)
    if isinstance(expr, ast.UnaryOp) and isinstance(expr.op, ast.Not):
        return not evaluate(expr.operand, classify, env)
    c = classify(expr)
    if c is None:
        raise ValueError(f"unclassified condition atom: {ast.unparse(expr)}")
    name, positive = c
    return env[name] if positive else not env[name]


def table(expr, classify, names):
    rows = {}
    for vals in itertools.product([False, True], repeat=len(names)):
        env = dict(zip(names, vals))
        rows[vals] = evaluate(expr, classify, env)
    return rows


def _terminates(stmts):
    return bool(stmts) and isinstance(stmts[-1], (ast.Continue, ast.Return, ast.Raise, ast.Break))


def reach_condition(stmts, is_target):
    """Path condition (an ast expression, or True) under which straight-line execution of `stmts`
    (if/else, early continue/return/raise) reaches the first statement satisfying is_target.
    Returns None when no such statement exists.  Loops/try around the target are not entered."""
    def conj(a, b):
        if a is True:
            return b
        if b is True:
            return a
        return ast.BoolOp(op=ast.And(), values=[a, b])

    def neg(a):
        return ast.UnaryOp(op=ast.Not(), operand=a)

    reach = True
    for s in stmts:
        if is_target(s):
            return reach
        if isinstance(s, ast.If):
            inner = reach_condition(s.body, is_target)
            if inner is not None:
                return conj(reach, conj(s.test, inner))
            inner = reach_condition(s.orelse, is_target)
            if inner is not None:
                return conj(reach, conj(neg(s.test), inner))
            if _terminates(s.body) and not _terminates(s.orelse):
                reach = conj(reach, neg(s.test))
            elif _terminates(s.orelse) and not _terminates(s.body):
                reach = conj(reach, s.test)
            elif _terminates(s.body) and _terminates(s.orelse):
                return None
    return None
