"""Tiny evaluator of boolean condition ASTs over named atoms (for finite decision tables)."""
import ast
import itertools


def atoms_of(expr, classify):
    """classify(node) -> atom name | None for leaf comparisons; returns set of atom names."""
    out = set()

    def walk(n):
        if isinstance(n, ast.BoolOp):
            for v in n.values:
                walk(v)
        elif isinstance(n, ast.UnaryOp) and isinstance(n.op, ast.Not):
            walk(n.operand)
        else:
            a = classify(n)
            if a is None:
                raise ValueError(f"unclassified condition atom: {ast.unparse(n)}")
            out.add(a[0])
    walk(expr)
    return out


def evaluate(expr, classify, env):
    if isinstance(expr, ast.BoolOp):
        vals = [evaluate(v, classify, env) for v in expr.values]
        return all(vals) if isinstance(expr.op, ast.And) else any(vals)
    if isinstance(expr, ast.UnaryOp) and isinstance(expr.op, ast.Not):
        return not evaluate(expr.operand, classify, env)
    c = classify(expr)
    if c is None:
        raise ValueError(f"unclassified condition atom: {ast.unparse(expr)}")
    name, positive = c
    return env[name] if positive else not env[name]


def table(expr, classify, names):
    rows = {}
    for vals in itertools.product([False, True], repeat=len(names)):
        env = dict(zip(names, vals))
        rows[vals] = evaluate(expr, classify, env)
    return rows


def _terminates(stmts):
    return bool(stmts) and isinstance(stmts[-1], (ast.Continue, ast.Return, ast.Raise, ast.Break))


def reach_condition(stmts, is_target):
    """Path condition (an ast expression, or True) under which straight-line execution of `stmts`
    (if/else, early continue/return/raise) reaches the first statement satisfying is_target.
    Returns None when no such statement exists.  Loops/try around the target are not entered."""
    def conj(a, b):
        if a is True:
            return b
        if b is True:
            return a
        return ast.BoolOp(op=ast.And(), values=[a, b])

    def neg(a):
        return ast.UnaryOp(op=ast.Not(), operand=a)

    reach = True
    for s in stmts:
        if is_target(s):
            return reach
        if isinstance(s, ast.If):
            inner = reach_condition(s.body, is_target)
            if inner is not None:
                return conj(reach, conj(s.test, inner))
            inner = reach_condition(s.orelse, is_target)
            if inner is not None:
                return conj(reach, conj(neg(s.test), inner))
            if _terminates(s.body) and not _terminates(s.orelse):
                reach = conj(reach, neg(s.test))
            elif _terminates(s.orelse) and not _terminates(s.body):
                reach = conj(reach, s.test)
            elif _terminates(s.body) and _terminates(s.orelse):
                return None
    return None


def inline_predicates(expr, scope_node):
    """Replace calls of local one-expression predicates (`def p(x): return <expr>` / `p = lambda x: <expr>` defined in
    scope_node) by their body with the parameters substituted: conditions are then read as if written in place."""
    import copy
    preds = {}
    for n in ast.walk(scope_node):
        if isinstance(n, ast.FunctionDef) and n is not scope_node:
            body = [b for b in n.body if not (isinstance(b, ast.Expr) and isinstance(b.value, ast.Constant))]
            if len(body) == 1 and isinstance(body[0], ast.Return) and body[0].value is not None:
                preds[n.name] = ([a.arg for a in n.args.args], body[0].value)
        elif isinstance(n, ast.Assign) and len(n.targets) == 1 and isinstance(n.targets[0], ast.Name) and isinstance(n.value, ast.Lambda):
            preds[n.targets[0].id] = ([a.arg for a in n.value.args.args], n.value.body)

    class Inl(ast.NodeTransformer):
        def visit_Call(self, node):
            self.generic_visit(node)
            if isinstance(node.func, ast.Name) and node.func.id in preds and not node.keywords:
                params, body = preds[node.func.id]
                if len(params) == len(node.args):
                    m = dict(zip(params, node.args))

                    class Sub(ast.NodeTransformer):
                        def visit_Name(self, nn):
                            return copy.deepcopy(m[nn.id]) if nn.id in m and isinstance(nn.ctx, ast.Load) else nn
                    return Sub().visit(copy.deepcopy(body))
            return node
    return Inl().visit(copy.deepcopy(expr))
