"""Tiny evaluator of boolean condition ASTs over named atoms (for finite decision tables)."""
import ast
import itertools


def atoms_of(expr, classify):
    """classify(node) -> atom name | None for leaf comparisons; returns set of atom names."""
    out = set()

    def walk(n):
        if isinstance(n, ast.BoolOp):
            for v in n.values:
                walk(v)
        elif isinstance(n, ast.UnaryOp) and isinstance(n.op, ast.Not):
            walk(n.operand)
        else:
            a = classify(n)
            if a is None:
                raise ValueError(f"unclassified condition atom: {ast.unparse(n)}")
            out.add(a[0])
    walk(expr)
    return out


def evaluate(expr, classify, env):
    if isinstance(expr, ast.BoolOp):
        vals = [evaluate(v, classify, env) for v in expr.values]
        return all(vals) if isinstance(expr.op, ast.And) else any(vals)
    if isinstance(expr, ast.UnaryOp) and isinstance(expr.op, ast.Not):
        return not evaluate(expr.operand, classify, env)
    name, positive = classify(expr)
    return env[name] if positive else not env[name]


def table(expr, classify, names):
    rows = {}
    for vals in itertools.product([False, True], repeat=len(names)):
        env = dict(zip(names, vals))
        rows[vals] = evaluate(expr, classify, env)
    return rows
