"""Rules about metadata assembly (spec_class.__init__/bootstrap/build_attr_spec, Attr.from_attr_value, naming cache)
and a few package-level who-may-call rules; shared by the properties whose statements depend on them."""
from __future__ import annotations

import ast

from ..model import AnalysisError
from ..report import Report, Violation
from ..runs import run_function
from ..values import ARG, CLS, FRESH, IMM, RECV, Const, Sym, vrepr
from .base import walk_own


def _short(fi):
    return fi.qualname.split(":")[-1].split("#")[0]


# -------------------------------------------------------------------------------------------------
def attr_spec_fresh(ctx, rep: Report, rule: str):
    """Attr.from_attr_value returns an object it owns on every path: a declared Attr(...) / dataclasses.field
    may sit on a mixin or module constant shared by several classes, and the spec is written to afterwards
    (name, owner, item_name, helper_methods...)."""
    from ..exprs import prov_of
    rep.rules[rule] = "provenance of the specification returned by Attr.from_attr_value (fresh on every path)"
    fi = ctx.p.find_function("Attr.from_attr_value")

    def conf(cfg):
        cfg.user_may_raise = False
        cfg.loop_unroll = 1
    it, outs = run_function(ctx.p, ctx.H, fi, [Sym(("cls",), {CLS}), Sym(("name",), {IMM}), Sym(("value",), {ARG}, tags={"nonsentinel"})],
                            {"**": Sym(("kwargs", "[]"), {ARG})}, configure=conf)
    rep.functions |= set(it.functions_entered)
    oks = [o for o in outs if o.kind == "ok"]
    if len(oks) < 3:
        raise AnalysisError(f"{rule}: {len(oks)} normal paths through Attr.from_attr_value (floor 3)")
    rep.evaluations += len(outs)
    bad = sorted({"+".join(sorted(prov_of(o.state, o.value))) for o in oks if set(prov_of(o.state, o.value)) - {FRESH, IMM}})
    rep.oblige(rule, "Attr.from_attr_value result is fresh", not bad, str(bad))
    if bad:
        rep.violate(Violation(rule, f"{rule}|from_attr_value|{bad[0]}", f"Attr.from_attr_value returns the caller's own object ({', '.join(bad)}) as the attribute specification: a declared Attr shared by two classes / attributes is then written by both (name, owner, item_name, helpers)",
                              f"{fi.module.relpath}:{fi.node.lineno}", "Attr.from_attr_value"))


# (function suffix, field) -> reason
SPEC_WRITERS = {
    ("Attr.from_attr_value", "name"): "fresh specification being built",
    ("Attr.from_attr_value", "*"): "keyword overrides on the fresh specification (setattr loop)",
    ("spec_class.build_attr_spec", "helper_methods"): "fresh specification being built",
    ("spec_class.build_attr_spec", "invalidated_by"): "fresh specification being built",
    ("spec_class.build_attr_spec", "prepare"): "fresh specification being built",
    ("spec_class.build_attr_spec", "prepare_item"): "fresh specification being built",
    ("spec_class.bootstrap", "item_name"): "singular-name collision fallback",
    ("AttrMethodDescriptor.__init__", "*"): "cached-property priming (self.attr_spec.x = self.attr_spec.x)",
}


def attr_spec_writers(ctx, rep: Report, rule: str):
    """Attr specifications are shared along the MRO (a subclass's metadata holds the parent's Attr objects unless it
    rebuilds them): a field of an existing specification is never assigned outside the sites where it is built."""
    rep.rules[rule] = "who-may-write the fields of an Attr specification"
    from .base import static_callees
    callers = {}
    for f_ in ctx.p.iter_functions():
        if not f_.is_lambda:
            for node_, g_ in static_callees(ctx.p, f_):
                callers.setdefault(g_.qualname, []).append((f_, node_))
    n = 0
    for fi in ctx.p.iter_functions():
        if fi.is_lambda or not fi.module.name.startswith(ctx.p.package):
            continue
        if fi.cls is not None and fi.cls.name == "Attr" and fi.node.name != "from_attr_value":
            continue       # the class's own methods write `self`
        short = _short(fi)
        for node in walk_own(fi.node):
            field = None
            if isinstance(node, (ast.Assign, ast.AugAssign, ast.AnnAssign)):
                tgts = node.targets if isinstance(node, ast.Assign) else [node.target]
                for t in tgts:
                    if isinstance(t, ast.Attribute) and ast.unparse(t.value).split(".")[-1] in ("attr_spec", "instance_attr_spec", "spec"):
                        if isinstance(node, ast.Assign) and ast.unparse(node.value) == ast.unparse(t):
                            continue        # x.f = x.f (primes a cached property; no change)
                        field = t.attr
            elif isinstance(node, ast.Call) and isinstance(node.func, ast.Name) and node.func.id == "setattr" and node.args \
                    and ast.unparse(node.args[0]).split(".")[-1] in ("attr_spec", "instance_attr_spec", "spec"):
                field = "*"
            if field is None:
                continue
            n += 1
            ok = any((short == k[0] or short.endswith("." + k[0])) and k[1] in (field, "*") for k in SPEC_WRITERS)
            if not ok and short.split(".")[-1].startswith("_") and not short.split(".")[-1].startswith("__"):
                # a private helper extracted from an enumerated site: every static caller must be such a site for this field
                cs = callers.get(fi.qualname, [])
                ok = bool(cs) and all(any((_short(cf) == k[0] or _short(cf).endswith("." + k[0])) and k[1] in (field, "*") for k in SPEC_WRITERS) for cf, _ in cs)
            rep.oblige(rule, f"{short}:{field}", ok)
            if not ok:
                rep.violate(Violation(rule, f"{rule}|{short}|{field}", f"{short} assigns `{ast.unparse(node)[:70]}` on an existing attribute specification: the Attr object is shared with the parent class's (and sibling subclasses') metadata, whose copying / checking behaviour changes with it",
                                      f"{fi.module.relpath}:{node.lineno}", short))
    if n < 5:
        raise AnalysisError(f"{rule}: only {n} specification writes found (floor 5)")


# -------------------------------------------------------------------------------------------------
def singular_cache(ctx, rep: Report, rule: str):
    """get_singular_form: whatever is stored in the process-wide cache is the value the function returns on that path
    (never a raw intermediate), and it is stored once."""
    rep.rules[rule] = "naming cache: stored value == returned value on every path; single store"
    fi = ctx.p.find_function("get_singular_form")

    def conf(cfg):
        cfg.user_may_raise = False
        cfg.record_decisions = True
    it, outs = run_function(ctx.p, ctx.H, fi, [Sym(("attr_name",), {IMM}, tags={"nonsentinel"})], {}, configure=conf)
    rep.functions |= set(it.functions_entered)
    rep.evaluations += len(outs)
    bad = []
    nstore = 0
    for o in outs:
        if o.kind != "ok":
            continue
        stores = [e for e in o.state.trace if e[0] == "W" and "INFLECT_CACHE" in str(e[2]) and e[1] == "setitem"]
        nstore += len(stores)
        ret = vrepr(o.value)
        if len(stores) > 1:
            bad.append("the cache entry is written more than once on one path (a concurrent reader can pick up the intermediate value)")
        for e in stores:
            stored = e[5]
            if stored != ret and not ret.endswith("INFLECT_CACHE/[attr_name]") and "INFLECT_CACHE" not in ret:
                bad.append(f"stores `{stored}` in the cache but returns `{ret}`: later lookups of the same name get a different answer")
    if nstore == 0:
        raise AnalysisError(f"{rule}: no store into INFLECT_CACHE observed")
    rep.oblige(rule, "get_singular_form", not bad, "; ".join(sorted(set(bad))[:2]))
    for b in sorted(set(bad))[:2]:
        rep.violate(Violation(rule, f"{rule}|cache|{b[:50]}", f"get_singular_form: {b}", f"{fi.module.relpath}:{fi.node.lineno}", "get_singular_form"))


# -------------------------------------------------------------------------------------------------
def inherited_rebuild(ctx, rep: Report, rule: str):
    """bootstrap's refresh of inherited attributes: a rebuilt specification keeps the inherited type and owner, and the
    decorator's do_not_copy argument (bool or collection of names) is only ever used through its per-attribute
    boolean reading."""
    rep.rules[rule] = "refresh of inherited Attr specs keeps type/owner; self.do_not_copy only in boolean-normalising contexts"
    bs = ctx.p.find_function("spec_class.bootstrap")
    bad = []
    loops = [n for n in walk_own(bs.node) if isinstance(n, ast.For) and "attrs.items()" in ast.unparse(n.iter)
             and any(isinstance(c, ast.Call) and ast.unparse(c.func).endswith("build_attr_spec") for c in ast.walk(n))]
    if not loops:
        raise AnalysisError(f"{rule}: refresh loop over inherited attributes not found in bootstrap")
    loop = loops[0]
    var = loop.target.elts[1].id if isinstance(loop.target, ast.Tuple) and len(loop.target.elts) == 2 and isinstance(loop.target.elts[1], ast.Name) else None
    bfn = ctx.p.find_function("spec_class.build_attr_spec")
    params = [a.arg for a in bfn.node.args.args][1:]
    for c in ast.walk(loop):
        if isinstance(c, ast.Call) and ast.unparse(c.func).endswith("build_attr_spec"):
            given = {p_: a for p_, a in zip(params, c.args)}
            given.update({k.arg: k.value for k in c.keywords if k.arg})
            t = given.get("attr_type")
            if t is None or ast.unparse(t) != f"{var}.type":
                bad.append((c, f"the rebuilt specification of an inherited attribute is typed `{ast.unparse(t) if t is not None else '?'}` instead of the inherited `{var}.type`: the subclass loses the annotation (anything is accepted)"))
            o = given.get("owner")
            if o is None or ast.unparse(o) != f"{var}.owner":
                bad.append((c, f"the rebuilt specification does not keep the inherited owner (`{ast.unparse(o) if o is not None else 'default'}`)"))
    # contexts of self.do_not_copy
    sc = ctx.p.find_class("spec_class")
    n_ctx = 0
    for name, defs in sc.methods.items():
        for d in defs:
            parents = {}
            for p_ in ast.walk(d.node):
                for ch in ast.iter_child_nodes(p_):
                    parents[id(ch)] = p_
            for x in ast.walk(d.node):
                if isinstance(x, ast.Attribute) and ast.unparse(x) == "self.do_not_copy" and isinstance(x.ctx, ast.Load):
                    n_ctx += 1
                    par = parents.get(id(x))
                    ok = False
                    if isinstance(par, ast.Call) and ast.unparse(par.func) == "isinstance":
                        ok = True
                    elif isinstance(par, ast.Compare) and (isinstance(par.ops[0], (ast.In, ast.NotIn)) and par.comparators[0] is x
                                                            or isinstance(par.ops[0], (ast.Is, ast.IsNot))):
                        ok = True
                    elif isinstance(par, ast.IfExp) and par.body is x and "isinstance(self.do_not_copy, bool)" in ast.unparse(par.test):
                        ok = True
                    else:
                        from .c16 import _guards_of
                        stmt = x
                        while id(stmt) in parents and not isinstance(stmt, ast.stmt):
                            stmt = parents[id(stmt)]
                        if any(g_.startswith("isinstance(self.do_not_copy, bool)") for g_ in _guards_of(d.node, stmt)):
                            ok = True        # used as a value only where it is known to be the boolean form
                    if not ok:
                        bad.append((x, f"spec_class.{name} uses the raw decorator argument `self.do_not_copy` (a bool or a collection of names) as a value: a non-empty list of names reads as 'true' for every attribute"))
    if n_ctx < 3:
        raise AnalysisError(f"{rule}: only {n_ctx} reads of self.do_not_copy found (floor 3)")
    rep.oblige(rule, "spec_class.bootstrap[inherited refresh]", not bad, "; ".join(b for _, b in bad[:2]))
    for node, b in bad[:3]:
        rep.violate(Violation(rule, f"{rule}|{b[:60]}", f"spec_class.bootstrap: {b}", f"{bs.module.relpath}:{node.lineno}", "spec_class.bootstrap"))


# -------------------------------------------------------------------------------------------------
def decorator_snapshots(ctx, rep: Report, rule: str):
    """The decorator's collection-valued arguments are snapshotted in spec_class.__init__: a lazily bootstrapped class
    reads them only at first use, so a caller-side change in between would make it differ from its eager twin."""
    from ..exprs import prov_of
    rep.rules[rule] = "provenance of the decorator state written by spec_class.__init__ (collections copied, not kept by reference)"
    init = ctx.p.find_function("spec_class.__init__")
    names = [a.arg for a in init.node.args.args[1:]] + [a.arg for a in init.node.args.kwonlyargs]

    def conf(cfg):
        cfg.user_may_raise = False
        cfg.loop_unroll = 1
        # scalars / flags are known not to be collections
        cfg.fact_defaults.append(lambda k: None)
    it, outs = run_function(ctx.p, ctx.H, init, [Sym(("self",), {FRESH})], {n: Sym((n,), {ARG}) for n in names}, configure=conf)
    rep.functions |= set(it.functions_entered)
    rep.evaluations += len(outs)
    coll = {"attrs", "attrs_typed", "attrs_skip", "do_not_copy"}
    bad = {}
    nw = 0
    for o in outs:
        for e in o.state.trace:
            if e[0] == "W" and e[2] == "self" and e[1] in ("setattr", "assign", "attr"):
                nw += 1
                val, vprov = str(e[5]), set(e[6])
                if ARG in vprov and val in coll:
                    facts = dict(o.state.facts) if hasattr(o.state, "facts") else {}
                    if facts.get(("isinstance", (val,), "builtins.bool")) is True:
                        continue
                    bad[(e[4], val)] = e[-1]
    if nw < 4:
        raise AnalysisError(f"{rule}: only {nw} decorator-state writes observed (floor 4)")
    rep.oblige(rule, "spec_class.__init__", not bad, str(sorted(bad)))
    for (field, val), site in sorted(bad.items()):
        fn, stmt = ctx.p.stmt_at(site)
        rep.violate(Violation(rule, f"{rule}|{field}|{val}", f"spec_class.__init__ keeps the caller's `{val}` collection by reference (`{stmt}`): a lazily bootstrapped class reads it at first use, after the caller may have changed it, and then differs from the eagerly bootstrapped class",
                              site, "spec_class.__init__"))


# -------------------------------------------------------------------------------------------------
def frozen_error_bases(ctx, rep: Report, rule: str):
    """FrozenInstanceError must not be an instance of any exception class the library itself swallows around guarded
    operations (e.g. `except AttributeError: pass` around delattr in reset()/invalidate_attrs)."""
    import builtins
    rep.rules[rule] = "FrozenInstanceError is not caught by any swallow-handler of the package"
    ci = ctx.p.find_class("FrozenInstanceError")
    bases = []
    for b in ci.base_exprs:
        nm = ast.unparse(b)
        cls = getattr(builtins, nm, None)
        if not (isinstance(cls, type) and issubclass(cls, BaseException)):
            raise AnalysisError(f"{rule}: base `{nm}` of FrozenInstanceError is not a builtin exception")
        bases.append(cls)
    bad = []
    n = 0
    for fi in ctx.p.iter_functions():
        if fi.is_lambda or not fi.module.name.startswith(ctx.p.package):
            continue
        for t in walk_own(fi.node):
            if not isinstance(t, ast.Try):
                continue
            body_calls = {ast.unparse(c_.func).split(".")[-1] for s in t.body for c_ in ast.walk(s) if isinstance(c_, ast.Call)}
            if not (body_calls & {"delattr", "setattr", "mutate_attr", "__setattr__", "__delattr__", "invalidate_attrs", "__raw__"}):
                continue        # the guarded operations cannot be reached from this try body
            for h in t.handlers:
                reraises = any(isinstance(s, ast.Raise) for s in ast.walk(h))
                if reraises or h.type is None:
                    continue
                types_ = h.type.elts if isinstance(h.type, ast.Tuple) else [h.type]
                for ht in types_:
                    cls = getattr(builtins, ast.unparse(ht), None)
                    if not isinstance(cls, type):
                        continue
                    n += 1
                    if any(issubclass(b, cls) for b in bases):
                        bad.append((fi, h, ast.unparse(ht)))
            # (contextlib.suppress regions are swallow-handlers too)
        for t in walk_own(fi.node):
            if not isinstance(t, ast.With):
                continue
            body_calls = {ast.unparse(c_.func).split(".")[-1] for s in t.body for c_ in ast.walk(s) if isinstance(c_, ast.Call)}
            if not (body_calls & {"delattr", "setattr", "mutate_attr", "__setattr__", "__delattr__", "invalidate_attrs", "__raw__"}):
                continue
            for it in t.items:
                ce = it.context_expr
                if isinstance(ce, ast.Call) and ast.unparse(ce.func).split(".")[-1] == "suppress":
                    for ht in ce.args:
                        cls = getattr(builtins, ast.unparse(ht), None)
                        if not isinstance(cls, type):
                            continue
                        n += 1
                        if any(issubclass(b, cls) for b in bases):
                            bad.append((fi, t, ast.unparse(ht)))
    if n < 2:
        raise AnalysisError(f"{rule}: only {n} swallow-handlers around attribute writes/deletes found (floor 2)")
    rep.oblige(rule, "FrozenInstanceError bases", not bad, "; ".join(f"{_short(f)}: except {t}" for f, _, t in bad[:3]))
    for f, h, t in bad[:3]:
        rep.violate(Violation(rule, f"{rule}|{_short(f)}|{t}", f"FrozenInstanceError derives from {', '.join(b.__name__ for b in bases)} and is therefore swallowed by `except {t}` in {_short(f)}: an in-place operation on a frozen instance returns silently instead of raising",
                              f"{f.module.relpath}:{h.lineno}", _short(f)))


# -------------------------------------------------------------------------------------------------
DEEPCOPY_CALLERS = {
    "protect_via_deepcopy": "the guarded copy itself (inside `with _modules_copyable()`)",
    "mutate_attr": "copies the whole instance: enters the generated __deepcopy__, which uses protect_via_deepcopy per attribute",
    "ResetMethod.reset": "copies the whole instance (generated __deepcopy__)",
    "ResetAttrMethod.reset_attr": "copies the whole instance (generated __deepcopy__)",
    "Attr.from_attr_value": "copies a declared Attr specification (no user values with modules involved)",
}


def deepcopy_callers(ctx, rep: Report, rule: str):
    """Every library-internal deep copy of user values goes through protect_via_deepcopy (which makes modules copyable
    for the duration); direct copy.deepcopy only at the enumerated sites; inside protect_via_deepcopy every deepcopy is
    lexically within `with _modules_copyable()`."""
    rep.rules[rule] = "who-may-call copy.deepcopy directly; guarded copy inside the with-context"
    n = 0
    for fi in ctx.p.iter_functions():
        if fi.is_lambda or not fi.module.name.startswith(ctx.p.package):
            continue
        short = _short(fi)
        for x in walk_own(fi.node):
            if isinstance(x, ast.Attribute) and x.attr == "deepcopy" and ast.unparse(x.value) == "copy":
                n += 1
                from .base import site_allowed
                ok = site_allowed(ctx, short, lambda s_: any(s_ == k or s_.endswith("." + k) for k in DEEPCOPY_CALLERS))
                rep.oblige(rule, f"{short}:copy.deepcopy", ok)
                if not ok:
                    rep.violate(Violation(rule, f"{rule}|{short}", f"{short} refers to copy.deepcopy directly: values copied this way are not covered by the module pass-through (a module held by the value makes the copy fail) and bypass the reference count of _modules_copyable",
                                          f"{fi.module.relpath}:{x.lineno}", short))
    if n < 4:
        raise AnalysisError(f"{rule}: only {n} references to copy.deepcopy found (floor 4)")
    pv = ctx.p.find_function("protect_via_deepcopy")
    guard_names = {a_.targets[0].id for a_ in walk_own(pv.node) if isinstance(a_, ast.Assign) and len(a_.targets) == 1 and isinstance(a_.targets[0], ast.Name)
                   and isinstance(a_.value, ast.Call) and ast.unparse(a_.value.func).split(".")[-1] == "_modules_copyable"}
    withs = [w for w in walk_own(pv.node) if isinstance(w, ast.With) and any("_modules_copyable" in ast.unparse(i.context_expr) or
                                                                              (isinstance(i.context_expr, ast.Name) and i.context_expr.id in guard_names) for i in w.items)]
    inside = {id(x) for w in withs for x in ast.walk(w)}
    outside = [x for x in walk_own(pv.node) if isinstance(x, ast.Attribute) and x.attr == "deepcopy" and id(x) not in inside]
    rep.oblige(rule, "protect_via_deepcopy: deepcopy inside the context", bool(withs) and not outside)
    if not withs or outside:
        rep.violate(Violation(rule, f"{rule}|protect_via_deepcopy|outside", "protect_via_deepcopy performs a deep copy outside `with _modules_copyable()`: a concurrent copy finishing first removes the module pass-through under it",
                              f"{pv.module.relpath}:{(outside[0].lineno if outside else pv.node.lineno)}", "protect_via_deepcopy"))
    globs = [g for f in ctx.p.iter_functions() if not f.is_lambda and f.module is pv.module for g in walk_own(f.node) if isinstance(g, ast.Global)]
    rep.oblige(rule, "no module-global mutable state in utils.mutation", not globs)
    for g in globs[:2]:
        rep.violate(Violation(rule, f"{rule}|global|{','.join(g.names)}", f"module-global state `{', '.join(g.names)}` is rebound from a function in utils/mutation.py without the singleton's lock: it is shared by all threads",
                              f"{pv.module.relpath}:{g.lineno}", "utils.mutation"))


def publication_last(ctx, rep: Report, rule: str, qual: str, published: str):
    """Typestate 'built -> published' inside one function: no statement after the assignment that publishes the object
    (`published`, e.g. cls.__instance__) writes to that object."""
    fi = ctx.p.find_function(qual)
    pubs = []
    for n in walk_own(fi.node):
        if isinstance(n, ast.Assign) and any(ast.unparse(t) == published for t in n.targets):
            pubs.append(n)
    if not pubs:
        raise AnalysisError(f"{rule}: no assignment to {published} in {qual}")
    bad = []
    for pub in pubs:
        names = {ast.unparse(t) for t in pub.targets if isinstance(t, ast.Name)}
        if isinstance(pub.value, ast.Name):
            names.add(pub.value.id)
        for n in walk_own(fi.node):
            if getattr(n, "lineno", 0) <= pub.end_lineno or n is pub:
                continue
            if isinstance(n, (ast.Assign, ast.AugAssign)):
                tg = n.targets if isinstance(n, ast.Assign) else [n.target]
                for t in tg:
                    if isinstance(t, ast.Attribute) and isinstance(t.value, ast.Name) and t.value.id in names:
                        bad.append(n)
    rep.oblige(rule, f"{qual}: publication last", not bad, "; ".join(ast.unparse(b)[:40] for b in bad[:3]))
    for b in bad[:2]:
        rep.violate(Violation(rule, f"{rule}|{qual}|{ast.unparse(b)[:40]}", f"{qual}: `{ast.unparse(b)[:60]}` initialises the object after `{published}` made it visible to other threads: a concurrent caller can obtain a half-built object",
                              f"{fi.module.relpath}:{b.lineno}", qual))


# -------------------------------------------------------------------------------------------------
def property_rebuild_forwards(ctx, rep: Report, rule: str):
    """getter()/setter()/deleter() rebuild the descriptor; the invalidated_by declaration lives in the extra attributes
    (`**self.attrs`) and must survive the rebuild, otherwise the property silently leaves the invalidation map."""
    rep.rules[rule] = "descriptor rebuilders forward **self.attrs (invalidated_by)"
    base = ctx.p.find_class("_spec_property_base")
    for meth in ("getter", "setter", "deleter"):
        c, m = ctx.p.lookup_method(base, meth)
        if not isinstance(m, list):
            raise AnalysisError(f"{rule}: _spec_property_base.{meth} not found")
        calls = [n for n in ast.walk(m[0].node) if isinstance(n, ast.Call) and ast.unparse(n.func) in ("type(self)", "self.__class__")]
        if not calls:
            for n in ast.walk(m[0].node):     # delegated to a private method of the class
                if isinstance(n, ast.Call) and isinstance(n.func, ast.Attribute) and ast.unparse(n.func.value) == "self" and n.func.attr.startswith("_"):
                    c2, m2 = ctx.p.lookup_method(base, n.func.attr)
                    if isinstance(m2, list):
                        calls = calls or [x for x in ast.walk(m2[0].node) if isinstance(x, ast.Call) and ast.unparse(x.func) in ("type(self)", "self.__class__")]
        ok = bool(calls) and any(k.arg is None and ast.unparse(k.value) == "self.attrs" for k in calls[0].keywords)
        rep.oblige(rule, f"_spec_property_base.{meth}", ok)
        if not ok:
            rep.violate(Violation(rule, f"{rule}|{meth}", f"_spec_property_base.{meth} rebuilds the property without `**self.attrs`: a cached property given a custom {meth[:-2]}ter loses its invalidated_by declaration and is never invalidated again",
                                  f"{m[0].module.relpath}:{m[0].node.lineno}", f"_spec_property_base.{meth}"))


def recursion_threads_guard(ctx, rep: Report, rule: str, qual: str = "invalidate_attrs"):
    """A recursive walk with a cycle guard hands the guard set to every recursive call (a call that starts a fresh set
    loops forever on a cyclic dependency graph - after the attribute was already written)."""
    rep.rules[rule] = f"every recursive call of {qual} forwards the visited set"
    fi = ctx.p.find_function(qual)
    params = [a.arg for a in fi.node.args.args + fi.node.args.kwonlyargs]
    # the guard: a local/parameter that is tested with `in` and extended with .add()
    added = {ast.unparse(n.func.value) for n in walk_own(fi.node) if isinstance(n, ast.Call) and isinstance(n.func, ast.Attribute) and n.func.attr == "add"}
    tested = {ast.unparse(n.comparators[0]) for n in walk_own(fi.node) if isinstance(n, ast.Compare) and isinstance(n.ops[0], (ast.In, ast.NotIn))}
    guards = added & tested
    rec = [n for n in walk_own(fi.node) if isinstance(n, ast.Call) and isinstance(n.func, ast.Name) and n.func.id == fi.node.name]
    if not rec:
        rep.oblige(rule, f"{qual}: not recursive (nothing to thread)", True)
        return
    if not guards:
        rep.oblige(rule, qual, False, "recursive without a cycle guard")
        rep.violate(Violation(rule, f"{rule}|{qual}|noguard", f"{qual} recurses without a cycle guard (a set that is tested and extended): two dependants invalidating each other never terminate",
                              f"{fi.module.relpath}:{rec[0].lineno}", qual))
        return
    g = sorted(guards)[0]
    bad = [n for n in rec if not any(ast.unparse(a) == g for a in list(n.args) + [k.value for k in n.keywords])]
    rep.oblige(rule, qual, not bad)
    for n in bad[:1]:
        rep.violate(Violation(rule, f"{rule}|{qual}", f"{qual}: the recursive call `{ast.unparse(n)[:70]}` does not pass the cycle guard `{g}` on: with two dependants invalidating each other the walk never ends (RecursionError after the attribute was already changed)",
                              f"{fi.module.relpath}:{n.lineno}", qual))


def preparer_registration(ctx, rep: Report, rule: str):
    """build_attr_spec registers `_prepare_<attr>` / `_prepare_<item>` whenever the class (or a parent/mixin) defines one:
    the lookup inherits (getattr) and the registration is conditional on the preparer only."""
    rep.rules[rule] = "preparer lookup inherits; registration guarded by the preparer only"
    root = ctx.p.find_function("spec_class.build_attr_spec")
    from .c16 import _guards_of
    from .base import with_callees
    n = 0
    bad = []
    sites = [(g, node) for g in with_callees(ctx.p, root, 1) if g is root or g.cls is root.cls for node in walk_own(g.node)]
    for fi, node in sites:
        if isinstance(node, ast.Assign) and len(node.targets) == 1 and ast.unparse(node.targets[0]) in ("attr_spec.prepare", "attr_spec.prepare_item"):
            n += 1
            field = node.targets[0].attr
            var = ast.unparse(node.value)
            conds = _guards_of(fi.node, node)
            for cnd in conds:
                names = {x.id for x in ast.walk(ast.parse(cnd, mode="eval")) if isinstance(x, ast.Name)}
                extra = names - {var, "attr_spec"} if field == "prepare_item" else names - {var}
                if extra or (field == "prepare" and "attr_spec" in names) or (field == "prepare_item" and "attr_spec" in names and "is_collection" not in cnd):
                    bad.append((node, f"`{ast.unparse(node)}` is additionally conditional on `{cnd}`: the preparer of such an attribute is silently not registered"))
            src = [a for a in walk_own(fi.node) if isinstance(a, ast.Assign) and len(a.targets) == 1 and ast.unparse(a.targets[0]) == var]
            if src and not (isinstance(src[0].value, ast.Call) and ast.unparse(src[0].value.func) == "getattr" and ast.unparse(src[0].value.args[0]) in ("spec_cls", "cls", "owner")):
                bad.append((src[0], f"`{ast.unparse(src[0])[:80]}` does not look the preparer up with getattr(spec_cls, ...): inherited preparers are dropped"))
    if n < 2:
        raise AnalysisError(f"{rule}: {n} preparer registrations found in build_attr_spec (floor 2)")
    rep.oblige(rule, "spec_class.build_attr_spec", not bad, "; ".join(b for _, b in bad[:2]))
    for node, b in bad[:2]:
        rep.violate(Violation(rule, f"{rule}|{b[:60]}", f"spec_class.build_attr_spec: {b}", f"{root.module.relpath}:{node.lineno}", "spec_class.build_attr_spec"))


def metaclass_identity(ctx, rep: Report, rule: str):
    """Validated types are distinct classes compared by identity: typing's alias cache and Union de-duplication key on
    ==/hash of their parameters, so a metaclass-level __eq__/__hash__ makes one validated type stand in for another."""
    rep.rules[rule] = "ValidatedTypeMeta defines no __eq__/__hash__/__ne__"
    ci = ctx.p.find_class("ValidatedTypeMeta")
    bad = [m for m in ("__eq__", "__hash__", "__ne__") if m in ci.methods]
    rep.oblige(rule, "ValidatedTypeMeta", not bad, str(bad))
    if bad:
        d = ci.methods[bad[0]][0]
        rep.violate(Violation(rule, f"{rule}|{bad[0]}", f"ValidatedTypeMeta defines {', '.join(bad)}: two different validated types can compare equal, and List[B] / Union[A, B] then silently reuse or drop one of them (typing caches by ==/hash)",
                              f"{d.module.relpath}:{d.node.lineno}", "ValidatedTypeMeta"))


# -------------------------------------------------------------------------------------------------
def parent_ctor_guard(ctx, rep: Report, rule: str):
    """InitMethod.init walks the whole MRO; `getattr(parent, '__spec_class__')` is also true for a plain class that only
    inherits its metadata (and its constructor) from a spec class.  Calling `parent.__init__` for such a class re-runs
    the inherited constructor without the keyword arguments and resets what was just initialised: the call must be
    conditional on the class defining its own constructor."""
    from .c16 import _guards_of
    rep.rules[rule] = "parent constructors are invoked only for classes that define their own __init__"
    from ..scenarios import core_impl
    fi = core_impl(ctx.H, "init").impl
    from .base import walk_own_all
    calls = [(f, n) for f, n in walk_own_all(ctx.p, fi) if isinstance(n, ast.Call) and isinstance(n.func, ast.Attribute) and n.func.attr == "__init__"
             and isinstance(n.func.value, ast.Name)]
    if not calls:
        raise AnalysisError(f"{rule}: no parent constructor call found in InitMethod.init")
    for f_, c in calls:
        var = c.func.value.id
        from .c16 import _guards_full, implies_atom
        gl = _guards_full(f_.node, c)
        conds = " && ".join(gl)

        def own_ctor(n_, var=var):
            if isinstance(n_, ast.Compare) and len(n_.ops) == 1 and isinstance(n_.ops[0], (ast.In, ast.NotIn)) and ast.unparse(n_.left) == "'__init__'" \
                    and ast.unparse(n_.comparators[0]) in (f"{var}.__dict__", f"vars({var})"):
                return isinstance(n_.ops[0], ast.In)
            return None
        ok = bool(gl) and implies_atom(gl, own_ctor)
        rep.oblige(rule, f"InitMethod.init: {var}.__init__", ok, conds[:120])
        if not ok:
            rep.violate(Violation(rule, f"{rule}|{var}.__init__", f"InitMethod.init calls `{var}.__init__` for every MRO entry that has (possibly inherited) spec-class metadata: a plain class between two spec classes re-runs its parent's generated constructor without the keywords, so `Sub(a=5).a` falls back to the default",
                                  f"{fi.module.relpath}:{c.lineno}", "InitMethod.init"))


def deepcopy_memo(ctx, rep: Report, rule: str):
    """The generated __deepcopy__ registers the new instance in `memo` before it copies the attributes; otherwise a
    reference back to the instance (x.parent = x, parent <-> child) recurses until RecursionError."""
    rep.rules[rule] = "__deepcopy__ registers the copy in the memo before copying attributes"
    fi = ctx.p.find_function("DeepCopyMethod.deepcopy")
    regs = [n for n in walk_own(fi.node) if isinstance(n, ast.Assign) and any(isinstance(t, ast.Subscript) and ast.unparse(t.value) == "memo" and "id(self)" in ast.unparse(t.slice) for t in n.targets)]
    def copies(fnode):
        return any(isinstance(n, ast.Call) and ast.unparse(n.func).split(".")[-1] in ("protect_via_deepcopy", "deepcopy") for n in ast.walk(fnode))
    from .base import static_callees
    copy_lines = [n.lineno for n in walk_own(fi.node) if isinstance(n, ast.Call) and ast.unparse(n.func).split(".")[-1] in ("protect_via_deepcopy", "deepcopy")]
    copy_lines += [call.lineno for call, g in static_callees(ctx.p, fi) if copies(g.node)]      # the copy loop may live in a private helper
    first_copy = min(copy_lines, default=None)
    if first_copy is None:
        raise AnalysisError(f"{rule}: no attribute copy found in DeepCopyMethod.deepcopy")
    ok = bool(regs) and min(r.lineno for r in regs) < first_copy
    rep.oblige(rule, "DeepCopyMethod.deepcopy", ok)
    if not ok:
        rep.violate(Violation(rule, f"{rule}|memo", "DeepCopyMethod.deepcopy copies the attributes before registering the new instance in `memo`: a self-referential instance (or a parent<->child cycle of instances) is copied by unbounded recursion (RecursionError) by deepcopy() and by every copy-on-write helper",
                              f"{fi.module.relpath}:{fi.node.lineno}", "DeepCopyMethod.deepcopy"))


def rebuild_options(ctx, rep: Report, rule: str):
    """When bootstrap rebuilds the specification of an inherited attribute (the subclass re-defaults it or changes its
    do_not_copy), the options of the inherited specification that are not expressed by the class attribute itself
    (default_factory, init, repr, compare, hash, metadata, desc, invalidated_by) must be carried over."""
    rep.rules[rule] = "refresh of inherited Attr specs carries the inherited options over"
    bs = ctx.p.find_function("spec_class.bootstrap")
    loops = [n for n in walk_own(bs.node) if isinstance(n, ast.For) and "attrs.items()" in ast.unparse(n.iter)
             and any(isinstance(c, ast.Call) and ast.unparse(c.func).endswith("build_attr_spec") for c in ast.walk(n))]
    if not loops:
        raise AnalysisError(f"{rule}: refresh loop not found")
    loop = loops[0]
    var = loop.target.elts[1].id
    src = ast.unparse(loop)
    bfn = ctx.p.find_function("spec_class.build_attr_spec")
    fav = ctx.p.find_function("Attr.from_attr_value")
    carried = [o for o in ("default_factory", "init", "repr", "compare", "hash", "metadata", "desc", "invalidated_by")
               if f"{var}.{o}" in src or f"'{o}'" in ast.unparse(bfn.node) and "inherit" in ast.unparse(bfn.node)]
    lost = [o for o in ("default_factory", "init", "repr", "compare") if o not in carried]
    rep.oblige(rule, "spec_class.bootstrap[inherited options]", not lost, str(lost))
    if lost:
        rep.violate(Violation(rule, f"{rule}|options-lost", f"spec_class.bootstrap rebuilds an inherited attribute's specification from the class attribute alone: the inherited {', '.join(lost)} options are dropped (a subclass that only changes do_not_copy loses a default_factory: the attribute becomes MISSING; re-defaulting an init=False / compare=False attribute makes it a constructor argument / compared again)",
                              f"{bs.module.relpath}:{loop.lineno}", "spec_class.bootstrap"))


def missing_default_contradiction(ctx, rep: Report, rule: str):
    """A decorator option that bootstrap applies only `if self.<opt> is not MISSING` is meant to be inherited from the
    parent's metadata when not given: its default in spec_class.__init__ must then be MISSING (a concrete default makes
    the test vacuous and silently overrides the inherited value)."""
    rep.rules[rule] = "options guarded by `is not MISSING` in bootstrap default to MISSING in the decorator signature"
    init = ctx.p.find_function("spec_class.__init__")
    bs = ctx.p.find_function("spec_class.bootstrap")
    a = init.node.args
    pos = a.posonlyargs + a.args
    defaults = dict(zip([p_.arg for p_ in pos[len(pos) - len(a.defaults):]], a.defaults))
    defaults.update({p_.arg: d for p_, d in zip(a.kwonlyargs, a.kw_defaults) if d is not None})
    stored = {}
    for n in walk_own(init.node):
        if isinstance(n, ast.Assign) and len(n.targets) == 1 and isinstance(n.targets[0], ast.Attribute) and ast.unparse(n.targets[0].value) == "self" \
                and isinstance(n.value, ast.Name):
            stored[n.targets[0].attr] = n.value.id
    nopt = 0
    guarded = []
    for n in walk_own(bs.node):
        if isinstance(n, ast.Compare) and isinstance(n.ops[0], (ast.Is, ast.IsNot)) and ast.unparse(n.comparators[0]) == "MISSING" \
                and isinstance(n.left, ast.Attribute) and ast.unparse(n.left.value) == "self":
            guarded.append(n.left.attr)
        # table-driven form: for name in ("key", "frozen", ...): if getattr(self, name) is not MISSING: setattr(metadata, name, ...)
        if isinstance(n, ast.For) and isinstance(n.target, ast.Name):
            it = n.iter
            if isinstance(it, ast.Name):
                r_ = ctx.p.resolve_global(bs.module, it.id)
                it = r_[1][1] if r_ and r_[0] == "assign" else it
            if isinstance(it, (ast.Tuple, ast.List)) and it.elts and all(isinstance(e_, ast.Constant) and isinstance(e_.value, str) for e_ in it.elts):
                src_ = ast.unparse(n)
                if f"getattr(self, {n.target.id})" in src_ and "MISSING" in src_ and any(
                        isinstance(c_, ast.Compare) and isinstance(c_.ops[0], (ast.Is, ast.IsNot)) and ast.unparse(c_.comparators[0]) == "MISSING" for c_ in ast.walk(n)):
                    guarded += [e_.value for e_ in it.elts]
    for opt in guarded:
        if True:
            param = stored.get(opt)
            if param is None or param not in defaults:
                continue
            nopt += 1
            ok = ast.unparse(defaults[param]) == "MISSING"
            rep.oblige(rule, f"spec_class({param}=...)", ok, ast.unparse(defaults[param]))
            if not ok:
                rep.violate(Violation(rule, f"{rule}|{param}", f"bootstrap applies `{opt}` only when it `is not MISSING`, but the decorator parameter `{param}` defaults to `{ast.unparse(defaults[param])}`: the value inherited from the parent class's metadata is always overwritten (a decorated subclass of a frozen class is mutable)",
                                      f"{init.module.relpath}:{init.node.lineno}", "spec_class.__init__"))
    if nopt < 2:
        raise AnalysisError(f"{rule}: only {nopt} MISSING-guarded options found (floor 2)")


# -------------------------------------------------------------------------------------------------
def for_class_rule(ctx, rep: Report, rule: str, aspects=("dnc", "attrs", "mro")):
    """SpecClassMetadata.for_class interpreted; the keyword values handed to the metadata constructor on every path:
    dnc   - the class-level do_not_copy flag is never inherited (always False; bootstrap only ever sets it to True);
    attrs - the attribute table is a new dict (never a parent's own table: a subclass adds to / replaces entries of it);
    mro   - frozen / key / init_overflow_attr come from the nearest ancestor along the MRO that carries its own metadata
            (not from whichever base happens to be listed last)."""
    from ..common import Outcome
    from ..exprs import prov_of
    from ..values import ClassV
    rep.rules[rule] = "keyword values of the metadata constructor in SpecClassMetadata.for_class, on every interpreted path"
    fi = ctx.p.find_function("SpecClassMetadata.for_class")
    ci = ctx.p.find_class("SpecClassMetadata")
    rows = set()

    def conf(cfg):
        cfg.user_may_raise = False
        cfg.loop_unroll = 2

        def hook(interp, st, what, args, kwargs, frame, node):
            if what[0] == "value" and isinstance(what[1], ClassV) and what[1].ci is ci:
                rows.add(tuple(sorted((k, vrepr(v), tuple(sorted(prov_of(st, v)))) for k, v in kwargs.items() if k != "**")))
                return [Outcome("ok", st, Sym(("metadata_new",), {FRESH}))]
            return None
        cfg.call_hooks.insert(0, hook)
    it, outs = run_function(ctx.p, ctx.H, fi, [ClassV(ci), Sym(("spec_cls",), {CLS}, tags={"nonsentinel"})], {}, configure=conf)
    rep.functions |= set(it.functions_entered)
    rep.evaluations += len(outs)
    inherited = [dict((k, (v, p)) for k, v, p in r) for r in rows if any(k == "attrs" for k, _, _ in r)]
    if not inherited:
        raise AnalysisError(f"{rule}: no inheriting construction observed in SpecClassMetadata.for_class")
    bad = []
    for r in inherited:
        if "dnc" in aspects and "do_not_copy" in r and r["do_not_copy"][0] != "False":
            bad.append(f"the class-level do_not_copy flag is inherited (`{r['do_not_copy'][0]}`): a subclass of a do_not_copy=True class is never copied, even when declared without the flag")
        if "attrs" in aspects and set(r["attrs"][1]) - {FRESH}:
            bad.append(f"the attribute table handed to the new metadata is a parent's own table (`{r['attrs'][0]}`): attributes a subclass adds or overrides leak into the parent and its other subclasses")
        if "mro" in aspects:
            # `next((c for c in spec_cls.mro()[1:] if ...), None)` is the same nearest-ancestor search as a loop with break
            next_over_mro = any(isinstance(c_, ast.Call) and ast.unparse(c_.func) == "next" and c_.args and isinstance(c_.args[0], ast.GeneratorExp)
                                and any((".mro()" in ast.unparse(g_.iter) or "__mro__" in ast.unparse(g_.iter)) for g_ in c_.args[0].generators)
                                for c_ in ast.walk(fi.node))
            for k in ("frozen", "key", "init_overflow_attr"):
                if k in r and "builtins.next" in r[k][0] and next_over_mro:
                    continue
                if k in r and ".mro()" not in r[k][0] and "__mro__" not in r[k][0]:
                    bad.append(f"`{k}` is inherited from `{r[k][0]}` rather than from the nearest ancestor along the MRO")
    rep.oblige(rule, "SpecClassMetadata.for_class", not bad, "; ".join(sorted(set(bad))[:2]))
    for b in sorted(set(bad))[:3]:
        rep.violate(Violation(rule, f"{rule}|for_class|{b[:50]}", f"SpecClassMetadata.for_class: {b}", f"{fi.module.relpath}:{fi.node.lineno}", "SpecClassMetadata.for_class"))


# -------------------------------------------------------------------------------------------------
def preparer_always(ctx, rep: Report, rule: str):
    """prepare_attr_value interpreted (value possibly None / falsy): whenever the attribute has a preparer and the value
    is not one of the argument markers, the preparer is called on every normal path - None and other falsy values are
    values like any other (constructor keywords, defaults and getter results all pass through here)."""
    rep.rules[rule] = "prepare_attr_value: the preparer is applied to every non-marker value (None included)"
    fi = ctx.p.find_function("prepare_attr_value")

    def conf(cfg):
        cfg.user_may_raise = False
        cfg.loop_unroll = 1
        cfg.record_decisions = True
        cfg.stubs.pop("prepare_attr_value", None)
        cfg.stubs.pop("mutate_value", None)
    params = [a.arg for a in fi.node.args.args]
    if params[:3] != ["attr_spec", "instance", "value"]:
        raise AnalysisError(f"{rule}: unexpected signature of prepare_attr_value {params}")
    it, outs = run_function(ctx.p, ctx.H, fi, [Sym(("attr_spec",), {CLS}), Sym(("self",), {RECV}, tags={"nonsentinel", "specinst"}), Sym(("value",), {ARG})],
                            {"attrs": Const(None)}, configure=conf, extra_facts={("truthy", ("attr_spec", ".is_collection")): False})
    rep.functions |= set(it.functions_entered)
    rep.evaluations += len(outs)
    bad = []
    n = 0
    for o in outs:
        if o.kind != "ok":
            continue
        d = dict(o.state.decisions)
        hasprep = d.get(("truthy", ("attr_spec", ".prepare")))
        if hasprep is False:
            continue
        markers = [v for k, v in d.items() if k[0] == "is" and k[1] == ("value",) and str(k[2]).startswith("('S'")]
        if any(markers):
            continue
        n += 1
        called = any(e[0] == "U" and str(e[1]).endswith("/.prepare") for e in o.state.trace)
        if hasprep is None:
            bad.append("a value is returned on a path that never asks whether the attribute has a preparer")
        elif not called:
            conds = [f"{k[0]}({'/'.join(map(str, k[1])) if isinstance(k[1], tuple) else k[1]})={v}" for k, v in d.items() if "value" in repr(k[1])][:3]
            bad.append(f"a value reaches the attribute unprepared although a preparer is registered (path conditions: {', '.join(conds)})")
    if n < 2:
        raise AnalysisError(f"{rule}: only {n} paths with a preparer and a real value (floor 2)")
    rep.oblige(rule, "prepare_attr_value", not bad, "; ".join(sorted(set(bad))[:2]))
    for b in sorted(set(bad))[:2]:
        rep.violate(Violation(rule, f"{rule}|{b[:70]}", f"prepare_attr_value / mutate_value: {b}", f"{fi.module.relpath}:{fi.node.lineno}", "prepare_attr_value"))


def options_verbatim(ctx, rep: Report, rule: str, options=("key", "frozen", "init_overflow_attr")):
    """spec_class.__init__ stores the inheritable options exactly as given: bootstrap distinguishes 'not given'
    (MISSING: inherit) from an explicit None / False (switch off), so no truthiness normalisation may sit in between."""
    rep.rules[rule] = "inheritable decorator options are stored verbatim on every path of spec_class.__init__"
    init = ctx.p.find_function("spec_class.__init__")
    names = [a.arg for a in init.node.args.args[1:]] + [a.arg for a in init.node.args.kwonlyargs]

    def conf(cfg):
        cfg.user_may_raise = False
        cfg.loop_unroll = 1
    it, outs = run_function(ctx.p, ctx.H, init, [Sym(("self",), {FRESH})], {n: Sym((n,), {ARG}) for n in names}, configure=conf)
    rep.functions |= set(it.functions_entered)
    rep.evaluations += len(outs)
    bad = {}
    seen = set()
    for o in outs:
        for e in o.state.trace:
            if e[0] == "W" and e[2] == "self" and e[4] in options:
                seen.add(e[4])
                if str(e[5]) != e[4]:
                    bad[e[4]] = (str(e[5]), e[-1])
    missing = [o_ for o_ in options if o_ not in seen and o_ in names]
    if missing:
        raise AnalysisError(f"{rule}: spec_class.__init__ does not store {missing}")
    rep.oblige(rule, "spec_class.__init__", not bad, str(bad))
    for opt, (val, site) in sorted(bad.items()):
        fn, stmt = ctx.p.stmt_at(site)
        rep.violate(Violation(rule, f"{rule}|{opt}", f"spec_class.__init__ stores `{val}` for the option `{opt}` on some path (`{stmt}`) instead of the value given: an explicit None / False can no longer be told from 'not given', so the parent's setting is inherited against the caller's wish",
                              site, "spec_class.__init__"))


def field_conversion(ctx, rep: Report, rule: str):
    """Attr.from_attr_value translates a dataclasses.Field option by option: each `<opt>=<field>.<opt>` pair names the same option."""
    rep.rules[rule] = "dataclasses.Field -> Attr conversion copies each option from the option of the same name"
    fi = ctx.p.find_function("Attr.from_attr_value")
    from .base import with_callees
    n = 0
    bad = []
    for g in with_callees(ctx.p, fi, 1):
        if g is not fi and g.cls is not fi.cls:
            continue
        for c in ast.walk(g.node):
            if isinstance(c, ast.Call) and ast.unparse(c.func) in ("Attr", "cls"):
                for k in c.keywords:
                    if k.arg and isinstance(k.value, ast.Attribute) and isinstance(k.value.value, ast.Name) and k.value.value.id in ("value", "field"):
                        n += 1
                        if k.value.attr != k.arg:
                            bad.append((c, f"`{k.arg}={ast.unparse(k.value)}`"))
    if n < 3:
        raise AnalysisError(f"{rule}: only {n} option copies found in the Field conversion (floor 3)")
    rep.oblige(rule, "Attr.from_attr_value[Field]", not bad, "; ".join(b for _, b in bad))
    for node, b in bad[:2]:
        rep.violate(Violation(rule, f"{rule}|{b}", f"Attr.from_attr_value: {b} copies a different option of the dataclasses.Field: a field declared with different repr/compare/init flags gets them swapped",
                              f"{fi.module.relpath}:{node.lineno}", "Attr.from_attr_value"))


def invalidated_by_source(ctx, rep: Report, rule: str):
    """build_attr_spec takes the dependencies of a property default from its normalised `__spec_class_invalidated_by__`
    (a bare string is one attribute name, not a sequence of characters)."""
    rep.rules[rule] = "Attr.invalidated_by is filled from the descriptor's normalised __spec_class_invalidated_by__"
    fi = ctx.p.find_function("spec_class.build_attr_spec")
    from .base import with_callees
    asg = [n for g in with_callees(ctx.p, fi, 1) if g is fi or g.cls is fi.cls for n in walk_own(g.node)
           if isinstance(n, ast.Assign) and len(n.targets) == 1 and isinstance(n.targets[0], ast.Attribute) and n.targets[0].attr == "invalidated_by"]
    if not asg:
        raise AnalysisError(f"{rule}: build_attr_spec no longer assigns invalidated_by")
    bad = [n for n in asg if isinstance(n.value, ast.Attribute) and n.value.attr != "__spec_class_invalidated_by__"
           and "default" in ast.unparse(n.value)]
    rep.oblige(rule, "spec_class.build_attr_spec", not bad)
    for n in bad[:1]:
        rep.violate(Violation(rule, f"{rule}|{ast.unparse(n.value)[-40:]}", f"spec_class.build_attr_spec: `{ast.unparse(n)}` reads the raw declaration instead of `__spec_class_invalidated_by__`: `invalidated_by=\"width\"` is iterated character by character and the property is never invalidated",
                              f"{fi.module.relpath}:{n.lineno}", "spec_class.build_attr_spec"))


def closure_captures_params(ctx, rep: Report, rule: str, outer: str = "bounded", inner: str = "validator"):
    """The inner function decides with the very values the caller passed: the parameters of `outer` that `inner`
    reads as free variables are never rebound in `outer` (no normalisation / coercion of a bound behind the caller's back)."""
    rep.rules[rule] = f"{outer}(): the parameters captured by {inner}() are not rebound before capture"
    fo = ctx.p.find_function(outer)
    inner_defs = [n for n in ast.walk(fo.node) if isinstance(n, ast.FunctionDef) and n.name == inner and n is not fo.node]
    if not inner_defs:
        raise AnalysisError(f"{rule}: {outer}.<locals>.{inner} not found")
    params = {a.arg for a in fo.node.args.args + fo.node.args.kwonlyargs}
    local_inner = {a.arg for a in inner_defs[0].args.args} | {x.id for x in ast.walk(inner_defs[0]) if isinstance(x, ast.Name) and isinstance(x.ctx, ast.Store)}
    captured = {x.id for x in ast.walk(inner_defs[0]) if isinstance(x, ast.Name) and isinstance(x.ctx, ast.Load)} & params - local_inner
    if len(captured) < 2:
        raise AnalysisError(f"{rule}: {inner} captures only {sorted(captured)}")
    bad = []
    for n in walk_own(fo.node):
        if isinstance(n, ast.Name) and isinstance(n.ctx, ast.Store) and n.id in captured:
            bad.append(n)
    rep.oblige(rule, f"{outer}", not bad, ", ".join(sorted({b.id for b in bad})))
    for b in bad[:1]:
        rep.violate(Violation(rule, f"{rule}|{b.id}", f"{outer}() rebinds its parameter `{b.id}` before {inner}() captures it: the generated type no longer checks against the bound the caller wrote (e.g. a fractional bound truncated by a numeric cast)",
                              f"{fo.module.relpath}:{b.lineno}", outer))


def unmanaged_key_no_helpers(ctx, rep: Report, rule: str):
    """A key attribute that is not among the managed attributes (skipped, private, explicit attrs= selection) gets an
    Attr specification but no helper methods."""
    rep.rules[rule] = "bootstrap: the specification built for an unmanaged key has helpers=False"
    bs = ctx.p.find_function("spec_class.bootstrap")
    ifs = [n for n in walk_own(bs.node) if isinstance(n, ast.If) and "self.key" in ast.unparse(n.test) and "not in" in ast.unparse(n.test)]
    calls = [c for n in ifs for c in ast.walk(n) if isinstance(c, ast.Call) and ast.unparse(c.func).endswith("build_attr_spec")]
    if not calls:
        raise AnalysisError(f"{rule}: unmanaged-key branch not found in bootstrap")
    bad = [c for c in calls if not any(k.arg == "helpers" and isinstance(k.value, ast.Constant) and k.value.value is False for k in c.keywords)]
    rep.oblige(rule, "spec_class.bootstrap[unmanaged key]", not bad)
    for c in bad[:1]:
        rep.violate(Violation(rule, f"{rule}|helpers", "spec_class.bootstrap builds the specification of an unmanaged key attribute without helpers=False: with_/update_/transform_/reset_<key> helpers appear for an attribute the class does not manage (also for private keys such as `_id`)",
                              f"{bs.module.relpath}:{c.lineno}", "spec_class.bootstrap"))


def override_slot_name(ctx, rep: Report, rule: str):
    """The per-instance override slot of an alias is named after the attribute the alias is bound to (one slot per alias),
    not after its target (which several aliases may share)."""
    rep.rules[rule] = "Alias.override_attr is derived from the alias's own attribute name"
    ci = ctx.p.find_class("Alias")
    c, m = ctx.p.lookup_method(ci, "override_attr")
    if not isinstance(m, list):
        raise AnalysisError(f"{rule}: Alias.override_attr not found")
    rets = [n for n in ast.walk(m[0].node) if isinstance(n, ast.Return) and n.value is not None and isinstance(n.value, ast.JoinedStr)]
    if not rets:
        raise AnalysisError(f"{rule}: Alias.override_attr no longer returns a formatted name")
    exprs = [ast.unparse(v.value) for r in rets for v in r.value.values if isinstance(v, ast.FormattedValue)]
    ok = any("_owner_attr" in e for e in exprs) and not any(e in ("self.attr", "self._attr_path") for e in exprs)
    rep.oblige(rule, "Alias.override_attr", ok, str(exprs))
    if not ok:
        rep.violate(Violation(rule, f"{rule}|{exprs}", f"Alias.override_attr builds the override slot name from {exprs}: two aliases of the same target share one slot, so assigning one alias changes what the other reads",
                              f"{m[0].module.relpath}:{m[0].node.lineno}", "Alias.override_attr"))


def parent_kwargs_init_only(ctx, rep: Report, rule: str):
    """Whatever the constructor hands to a parent spec-class constructor (a caller keyword or a pre-resolved default) is
    an init-enabled attribute of that parent: an init=False attribute is not a parameter of the parent's generated
    __init__ and would be rejected."""
    from . import boolfn
    from ..scenarios import core_impl
    from .base import with_callees
    rep.rules[rule] = "keywords forwarded to a parent constructor are restricted to init-enabled attributes"
    fi = core_impl(ctx.H, "init").impl
    n = 0
    bad = []
    # the dictionary handed to the parent constructor: `<parent>.__init__(self, **<dict>)`
    dict_names = set()
    for g in with_callees(ctx.p, fi, 1):
        for c_ in ast.walk(g.node):
            if isinstance(c_, ast.Call) and isinstance(c_.func, ast.Attribute) and c_.func.attr == "__init__":
                dict_names |= {k_.value.id for k_ in c_.keywords if k_.arg is None and isinstance(k_.value, ast.Name)}
    if not dict_names:
        raise AnalysisError(f"{rule}: no `<parent>.__init__(self, **kwargs)` call found")
    for g in with_callees(ctx.p, fi, 1):
        if g is not fi and not g.module.name.startswith(ctx.p.package + ".methods"):
            continue
        for loop in walk_own(g.node):
            if not isinstance(loop, ast.For):
                continue
            stores = [s for s in ast.walk(loop) if isinstance(s, ast.Assign) and isinstance(s.targets[0], ast.Subscript)
                      and ast.unparse(s.targets[0].value) in dict_names and ast.unparse(s.targets[0].slice) == ast.unparse(loop.target)]
            if not stores:
                continue
            for s in stores:
                n += 1
                rc = boolfn.reach_condition(loop.body, lambda x, s=s: any(y is s for y in ast.walk(x)) if not isinstance(x, ast.If) else False)
                # path condition of the statement that (transitively) contains the store
                cond_src = ""
                if rc is not None and rc is not True:
                    cond_src = ast.unparse(rc)
                from .c16 import _guards_of
                cond_src += " && " + " && ".join(_guards_of(loop, s))
                if ".init" not in cond_src:
                    bad.append((s, f"`{ast.unparse(s)[:60]}` is reached without testing `<attr spec>.init` (conditions: {cond_src[:120]})"))
    if n < 2:
        raise AnalysisError(f"{rule}: {n} parent keyword stores found (floor 2)")
    rep.oblige(rule, "InitMethod.init[parent keywords]", not bad, "; ".join(b for _, b in bad[:2]))
    for s, b in bad[:2]:
        rep.violate(Violation(rule, f"{rule}|{ast.unparse(s)[:40]}", f"InitMethod.init: {b}: an init=False attribute of a parent spec class is passed to the parent's constructor, which rejects it (the subclass cannot be instantiated)",
                              f"{fi.module.relpath}:{s.lineno}", "InitMethod.init"))


def declared_do_not_copy(ctx, rep: Report, rule: str):
    """build_attr_spec hands a do_not_copy keyword to Attr.from_attr_value, which overrides whatever the declared
    Attr(...) says: the value handed over must take the declaration into account (Attr(do_not_copy=True) is documented)."""
    rep.rules[rule] = "the do_not_copy flag declared on an Attr(...) is not overwritten by the decorator-level setting"
    fi = ctx.p.find_function("spec_class.build_attr_spec")
    from .base import with_callees
    srcs = " ".join(ast.unparse(g.node) for g in with_callees(ctx.p, fi, 1) if g is fi or g.cls is fi.cls)
    fav = ctx.p.find_function("Attr.from_attr_value")
    overrides = any(isinstance(n, ast.Call) and isinstance(n.func, ast.Name) and n.func.id == "setattr" for n in ast.walk(fav.node))
    passes_kw = "do_not_copy=" in srcs
    honours = "attr_value.do_not_copy" in srcs or ".do_not_copy or" in srcs
    ok = (not overrides) or (not passes_kw) or honours
    rep.oblige(rule, "spec_class.build_attr_spec", ok)
    if not ok:
        rep.violate(Violation(rule, f"{rule}|declared-flag", "spec_class.build_attr_spec passes the decorator-level do_not_copy to Attr.from_attr_value as an override without consulting the declared Attr: `x: list = Attr(do_not_copy=True)` is deep-copied by every helper unless the decorator repeats the setting",
                              f"{fi.module.relpath}:{fi.node.lineno}", "spec_class.build_attr_spec"))
