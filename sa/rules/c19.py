"""C19 — lazy bootstrapping equals eager bootstrapping under every thread interleaving.

Schedules cannot be enumerated statically; decided is the lock discipline that makes interleavings
irrelevant: if all class-state mutation of a bootstrap happens inside one mutual-exclusion region
that re-checks "already done", every schedule is equivalent to a sequential order, and bootstrap
itself is deterministic.
C19.LS   lockset: every lazy trigger reaches bootstrap() only inside `with <lock>`, the same lock the
         __new__ wrapper uses; decoration time (bootstrap=True) is exempt
C19.DCL  inside that region a test of the bootstrapped state dominates the call (a thread that waited
         on the lock does not bootstrap again)
C19.NEW  the __new__ wrapper tests its marker and installs/removes __new__ only inside the lock, after
         triggering bootstrap and before delegating
C19.PUB  the metadata object is not written after bootstrap stores it on the class (publication is the last
         step of assembly; only method registration follows)
C19.ORD  under the lock only the class's bases can be triggered (no foreign __spec_class__ lookups)
C19.DIS  method descriptors dissolve onto the class they were registered on, storing a value that
         depends only on the descriptor (idempotent unlocked write)
"""
from __future__ import annotations

import ast

from ..model import AnalysisError
from ..report import Report, Violation
from .base import get_ctx, walk_own

META = {"assumptions": ["RLock gives mutual exclusion and re-entrancy", "bootstrap is deterministic when run once",
                        "equality of the resulting metadata with the eager result per schedule is argued, not explored",
                        "residual window: metadata is published inside bootstrap before method registration completes (instantiation waits on the lock; a bare metadata reader does not)"],
        "trusted": ["stdlib ast"]}


def _enclosing(fn_node, target, kinds):
    """Chain of enclosing nodes of `kinds` around target inside fn_node (outermost first)."""
    path = []

    def rec(node, acc):
        if node is target:
            path.extend(acc)
            return True
        for child in ast.iter_child_nodes(node):
            nacc = acc + [node] if isinstance(node, kinds) else acc
            if rec(child, nacc):
                return True
        return False
    rec(fn_node, [])
    return path


def _check_main(ctx, rep: Report):
    call = ctx.p.find_function("spec_class.__call__")
    rel = call.module.relpath
    node = call.node
    # locks created in __call__
    locks = [t.id for n in walk_own(node) if isinstance(n, ast.Assign) and isinstance(n.value, ast.Call)
             and ast.unparse(n.value.func).split(".")[-1] in ("RLock", "Lock") for t in n.targets if isinstance(t, ast.Name)]
    nested = [n for n in ast.walk(node) if isinstance(n, (ast.FunctionDef, ast.Lambda)) and n is not node]
    # all calls of self.bootstrap(...)
    boots = [n for n in ast.walk(node) if isinstance(n, ast.Call) and ast.unparse(n.func) == "self.bootstrap"]
    if not boots:
        raise AnalysisError("C19: no call of self.bootstrap in spec_class.__call__")
    rep.rules["C19.LS"] = "lockset of every lazy path to bootstrap()"
    rep.rules["C19.DCL"] = "re-check inside the lock dominates bootstrap()"
    lazy_locks = set()
    n_lazy = 0
    for b in boots:
        fns = _enclosing(node, b, (ast.FunctionDef, ast.Lambda))
        fns = [f for f in fns if f is not node]
        if not fns:
            # decoration-time path: must be under `if self.bootstrap_immediately`
            ifs = _enclosing(node, b, (ast.If,))
            ok = any("bootstrap_immediately" in ast.unparse(i.test) for i in ifs)
            rep.oblige("C19.LS", "eager path", ok)
            if not ok:
                rep.violate(Violation("C19.LS", "C19.LS|eager", "spec_class.__call__ bootstraps unconditionally at decoration time", f"{rel}:{b.lineno}", "spec_class.__call__"))
            continue
        n_lazy += 1
        inner = fns[-1]
        withs = [w for w in _enclosing(inner, b, (ast.With,))]
        held = [ast.unparse(it.context_expr) for w in withs for it in w.items]
        held_locks = [h for h in held if h in locks]
        ok = bool(held_locks)
        name = getattr(inner, "name", "<lambda>")
        rep.oblige("C19.LS", f"lazy trigger `{name}`", ok, f"locks held: {held}")
        if not ok:
            rep.violate(Violation("C19.LS", f"C19.LS|{name}", f"the lazy trigger `{name}` calls bootstrap() without holding the per-class lock: two threads doing a first use both bootstrap, the second re-reading class attributes the first already consumed",
                                  f"{rel}:{b.lineno}", "spec_class.__call__"))
            continue
        lazy_locks |= set(held_locks)
        # DCL: an If inside the innermost lock region encloses the call and tests the bootstrapped state
        lock_with = [w for w in withs if any(ast.unparse(it.context_expr) in locks for it in w.items)][-1]
        # (nested `if` form, or the early-return form `if <bootstrapped>: return` before the call)
        from . import boolfn
        from .c17 import _dealias

        def holds_boot(s_, b=b):
            return not isinstance(s_, ast.If) and any(x is b for x in ast.walk(s_))
        rc = boolfn.reach_condition(lock_with.body, holds_boot)
        rc_src = "" if rc is None or rc is True else _dealias(inner, rc)
        good = any(k in rc_src for k in ("_SpecClassMetadataPlaceholder", "__spec_class__", "bootstrapped"))
        rep.oblige("C19.DCL", f"lazy trigger `{name}`", bool(good), f"condition inside the lock under which bootstrap() is reached: {rc_src[:160]}")
        if not good:
            rep.violate(Violation("C19.DCL", f"C19.DCL|{name}", f"`{name}` does not re-check, inside the lock, that the class is still un-bootstrapped: a thread that waited on the lock bootstraps the class a second time",
                                  f"{rel}:{b.lineno}", "spec_class.__call__"))
        # nothing about the bootstrapped state may be decided before the lock and acted upon without re-check
        pre = [s for s in inner.body if isinstance(s, ast.If) and s.lineno < lock_with.lineno and any(isinstance(x, ast.Return) for x in ast.walk(s))]
        for s in pre:
            rep.notes.append(f"unlocked fast path before the lock in `{name}`: {ast.unparse(s.test)[:80]}")
    if n_lazy == 0:
        raise AnalysisError("C19: no lazy bootstrap path found")
    # placeholders must be given the locked trigger
    ph = [n for n in ast.walk(node) if isinstance(n, ast.Call) and ast.unparse(n.func) == "_SpecClassMetadataPlaceholder"]
    if len(ph) < 2:
        raise AnalysisError(f"C19: {len(ph)} placeholder installations found (expected 2)")
    locked_names = set()
    for f in nested:
        if isinstance(f, ast.FunctionDef):
            for w in ast.walk(f):
                if isinstance(w, ast.With) and any(ast.unparse(it.context_expr) in locks for it in w.items) and \
                        any(isinstance(x, ast.Call) and ast.unparse(x.func) == "self.bootstrap" for x in ast.walk(w)):
                    locked_names.add(f.name)
    for p in ph:
        arg = p.args[0] if p.args else None
        a = ast.unparse(arg) if arg is not None else ""
        ok = a in locked_names or (isinstance(arg, ast.Lambda) and any(isinstance(x, ast.Call) and ast.unparse(x.func) in locked_names for x in ast.walk(arg)))
        rep.oblige("C19.LS", f"placeholder({a[:30]})", ok)
        if not ok:
            rep.violate(Violation("C19.LS", f"C19.LS|placeholder|{a[:40]}", f"a metadata placeholder is given `{a}` which reaches bootstrap() outside the locked trigger", f"{rel}:{p.lineno}", "spec_class.__call__"))
    # the placeholder descriptor itself only calls the bootstrapper
    pg = ctx.p.find_function("_SpecClassMetadataPlaceholder.__get__")
    ok = "self.bootstrapper()" in ast.unparse(pg.node) and "bootstrap(" not in ast.unparse(pg.node).replace("self.bootstrapper()", "")
    rep.oblige("C19.LS", "_SpecClassMetadataPlaceholder.__get__", ok)
    if not ok:
        rep.violate(Violation("C19.LS", "C19.LS|placeholder.__get__", "the placeholder descriptor no longer defers to the (locked) bootstrapper it was given", f"{rel}:{pg.node.lineno}", "_SpecClassMetadataPlaceholder.__get__"))

    # ---- NEW
    rep.rules["C19.NEW"] = "__new__ wrapper: marker test and every __new__ install/removal inside the same lock"
    wrappers = [f for f in nested if isinstance(f, ast.FunctionDef) and f.name == "__new__" and any("__spec_class__" in ast.unparse(s) for s in f.body)]
    if not wrappers:
        raise AnalysisError("C19.NEW: __new__ wrapper not found")
    w = wrappers[0]
    bad = []
    lock_withs = [x for x in ast.walk(w) if isinstance(x, ast.With) and any(ast.unparse(it.context_expr) in locks for it in x.items)]
    if not lock_withs:
        bad.append("the wrapper takes no lock at all")
    else:
        lw = lock_withs[0]
        used = {ast.unparse(it.context_expr) for it in lw.items}
        if lazy_locks and not (used & lazy_locks):
            bad.append(f"the wrapper synchronises on {sorted(used)} but bootstrapping on {sorted(lazy_locks)}: a thread can instantiate while another is still registering methods")
        inside = set(id(x) for x in ast.walk(lw))
        for x in ast.walk(w):
            if isinstance(x, (ast.Assign, ast.Delete)):
                tg = x.targets
                for t in tg:
                    if ast.unparse(t) == "spec_cls.__new__" and id(x) not in inside:
                        bad.append(f"`{ast.unparse(x)[:50]}` happens outside the lock")
            if isinstance(x, (ast.Call, ast.Attribute)) and "__spec_classes_new_wrapper__" in ast.unparse(x) and id(x) not in inside \
                    and isinstance(x, ast.Call):
                bad.append("the wrapper marker is tested outside the lock (check-then-act: two threads both try to remove the wrapper)")
        # order: bootstrap trigger before the lock, delegation after
        first_spec = min((s.lineno for s in w.body if "__spec_class__" in ast.unparse(s)), default=None)
        if first_spec is None or first_spec > lw.lineno:
            bad.append("bootstrap is not triggered before taking the lock")
        for x in ast.walk(w):
            if isinstance(x, ast.Call) and ast.unparse(x.func) == "getattr" and len(x.args) >= 2 and isinstance(x.args[1], ast.Constant) \
                    and x.args[1].value == "__spec_classes_new_wrapper__":
                src_ = ast.unparse(x.args[0])
                if not (src_.startswith("spec_cls.") or src_.startswith("spec_cls[")):
                    bad.append(f"the wrapper looks for its marker on `{src_}` instead of the decorated class's own `spec_cls.__new__`: reached through a subclass that defines __new__, it never removes itself and calls itself again (RecursionError on first use of the lazy class only)")
        for x in ast.walk(w):
            if isinstance(x, ast.Compare) and "object.__new__" in ast.unparse(x):
                other = [s for s in [x.left] + list(x.comparators) if ast.unparse(s) != "object.__new__"]
                for s in other:
                    t = ast.unparse(s)
                    if "__base__" in t or "__bases__" in t:
                        bad.append(f"the inherited __new__ is looked up through `{t}` (one base) instead of the MRO: with multiple inheritance the __new__ of another base is bypassed / object.__new__ receives constructor arguments")
        rets = [s for s in w.body if isinstance(s, ast.Return)]
        if not rets or rets[-1].lineno < lw.end_lineno or "spec_cls.__new__(cls" not in ast.unparse(rets[-1]):
            bad.append("delegation to the real __new__ does not follow the locked region")
    rep.oblige("C19.NEW", "__new__ wrapper", not bad, "; ".join(sorted(set(bad))))
    for b_ in sorted(set(bad)):
        rep.violate(Violation("C19.NEW", f"C19.NEW|{b_[:70]}", f"lazy __new__ wrapper: {b_}", f"{rel}:{w.lineno}", "spec_class.__call__.<locals>.__new__"))

    # ---- ORD
    rep.rules["C19.ORD"] = "no foreign spec-class lookups from the bootstrap region"
    forbidden = ("get_spec_class_for_type", ".spec_type", ".item_spec_type", ".item_spec_key_type", ".spec_type_polymorphic", ".constructor", ".item_constructor")
    region = ["spec_class.bootstrap", "spec_class.build_attr_spec", "SpecClassMetadata.for_class", "spec_class.get_methods_for_attribute",
              "spec_class.register_methods", "spec_class.register_method", "Attr.from_attr_value", "spec_class.get_methods_for_spec_class"]
    # the core methods are *built* inside bootstrap (`.method`), through the signature builder
    for cname in ("InitMethod", "ReprMethod", "EqMethod", "GetAttrMethod", "SetAttrMethod", "DelAttrMethod", "DeepCopyMethod"):
        region.append(f"{cname}.build_method")
    mb = ctx.p.find_class("MethodBuilder")
    region += [f"MethodBuilder.{m_}" for m_ in mb.methods]
    for q in region:
        fi = ctx.p.find_function(q)
        src = ast.unparse(fi.node)
        hits = [f for f in forbidden if f in src]
        # what is computed while the class is being bootstrapped must not depend on the momentary state of *other* classes
        # (a parent bootstrapped concurrently publishes its metadata before its methods are registered):
        if q.endswith(".build_method") or q in ("spec_class.register_methods", "spec_class.register_method"):
            hits += [f for f in (".mro()", "__mro__", ".invalidation_map") if f in src]
        rep.oblige("C19.ORD", q, not hits, str(hits))
        if hits:
            rep.violate(Violation("C19.ORD", f"C19.ORD|{q}|{hits[0]}", f"{q} (runs under the bootstrap lock) resolves `{hits[0]}`: this can trigger the bootstrap of an unrelated class while holding the lock (lock-order inversion between two mutually referencing classes)",
                                  f"{fi.module.relpath}:{fi.node.lineno}", q))
    bs = ctx.p.find_function("spec_class.bootstrap")
    ok = any(isinstance(n, ast.For) and ast.unparse(n.iter) == "spec_cls.__bases__" and "__spec_class__" in ast.unparse(n) for n in walk_own(bs.node))
    rep.oblige("C19.ORD", "parents first", ok)
    if not ok:
        rep.violate(Violation("C19.ORD", "C19.ORD|parents", "bootstrap no longer triggers the bootstrap of its bases first (child -> parent order)", f"{rel}:{bs.node.lineno}", "spec_class.bootstrap"))

    # ---- PUB: typestate "assembled -> published": once the metadata object is stored on the class (readers that only
    # look at cls.__spec_class__ take it without the lock) nothing may write to it or to the Attr objects it holds
    rep.rules["C19.PUB"] = "no write to the metadata object after its publication on the class"
    from ..common import MUTATING_METHODS
    pubs = [n for n in walk_own(bs.node) if isinstance(n, ast.Assign) and any(ast.unparse(t) == "spec_cls.__spec_class__" for t in n.targets)
            and isinstance(n.value, ast.Name)]
    if len(pubs) != 1:
        raise AnalysisError(f"C19.PUB: {len(pubs)} publication statements in bootstrap (expected one)")
    pub = pubs[0]
    M = pub.value.id

    def root(e):
        while isinstance(e, (ast.Attribute, ast.Subscript, ast.Call)):
            e = e.func if isinstance(e, ast.Call) else e.value
        return e.id if isinstance(e, ast.Name) else None
    tainted = {M}
    for n in walk_own(bs.node):                       # loop variables ranging over the metadata's attribute specs
        if isinstance(n, ast.For) and root(n.iter) == M:
            tainted |= {x.id for x in ast.walk(n.target) if isinstance(x, ast.Name)}
    bad = []
    for n in walk_own(bs.node):
        if getattr(n, "lineno", 0) <= pub.end_lineno:
            continue
        if isinstance(n, (ast.Assign, ast.AugAssign, ast.AnnAssign)):
            tgts = n.targets if isinstance(n, ast.Assign) else [n.target]
            for t in tgts:
                if isinstance(t, (ast.Attribute, ast.Subscript)) and root(t) in tainted:
                    bad.append((n, f"`{ast.unparse(n)[:60]}`"))
        if isinstance(n, ast.Call) and isinstance(n.func, ast.Attribute) and n.func.attr in MUTATING_METHODS and root(n.func.value) in tainted:
            bad.append((n, f"`{ast.unparse(n)[:60]}`"))
    rep.oblige("C19.PUB", "spec_class.bootstrap", not bad, "; ".join(b for _, b in bad[:3]))
    for n, b_ in bad[:3]:
        rep.violate(Violation("C19.PUB", f"C19.PUB|{b_[:60]}", f"spec_class.bootstrap: {b_} changes the metadata after `{ast.unparse(pub)}` published it: a concurrent reader of the class's metadata observes a half-assembled specification",
                              f"{rel}:{n.lineno}", "spec_class.bootstrap"))

    # ---- MEMO: the built method of a descriptor is memoised with publish-last discipline
    rep.rules["C19.MEMO"] = "MethodDescriptor.method: cached_property, or a memo whose 'built' flag is set after the value is stored"
    mdc = ctx.p.find_class("MethodDescriptor")
    c_, m_ = ctx.p.lookup_method(mdc, "method")
    if not isinstance(m_, list):
        raise AnalysisError("C19.MEMO: MethodDescriptor.method not found")
    mnode = m_[0].node
    decos = [ast.unparse(d_) for d_ in mnode.decorator_list]
    bad_memo = []
    if not any("cached_property" in d_ for d_ in decos):
        builds = [n for n in ast.walk(mnode) if isinstance(n, ast.Assign) and "build_method()" in ast.unparse(n.value)]
        flags = [n for n in ast.walk(mnode) if isinstance(n, ast.Assign) and isinstance(n.value, ast.Constant) and n.value.value is True
                 and isinstance(n.targets[0], ast.Attribute)]
        if builds and any(f_.lineno < builds[0].lineno for f_ in flags):
            bad_memo.append(f"`{ast.unparse(flags[0])}` marks the method as built before `{ast.unparse(builds[0])[:50]}` has produced it: a second thread (or the accessing descriptor protocol) obtains None and plants it on the class")
    rep.oblige("C19.MEMO", "MethodDescriptor.method", not bad_memo, "; ".join(bad_memo))
    for b_ in bad_memo:
        rep.violate(Violation("C19.MEMO", "C19.MEMO|flag-before-value", f"MethodDescriptor.method: {b_}", f"{m_[0].module.relpath}:{mnode.lineno}", "MethodDescriptor.method"))

    # ---- DIS / IDEM
    rep.rules["C19.DIS"] = "dissolution target and value"
    g = ctx.p.find_function("MethodDescriptor.__get__")
    from .base import with_callees
    calls = [n for gg in with_callees(ctx.p, g, 1) if gg is g or gg.cls is g.cls       # the write may sit in a private helper of the class
             for n in walk_own(gg.node) if isinstance(n, ast.Call) and ast.unparse(n.func) == "setattr"]
    bad = []
    if len(calls) != 1:
        bad.append(f"{len(calls)} class writes (expected one)")
    else:
        c = calls[0]
        from .c17 import _dealias
        tgt = _dealias(g.node, c.args[0])          # a local alias of the target class is looked through
        if not tgt.startswith("self.spec_cls"):
            bad.append(f"dissolves onto `{tgt}` (the accessing class): a parent's helper is planted in a not-yet-bootstrapped subclass, which then skips its own helper")
        if ast.unparse(c.args[1]) != "self.name" or ast.unparse(c.args[2]) != "self.method":
            bad.append("stores something other than the descriptor's own method under its own name (not idempotent)")
    rep.oblige("C19.DIS", "MethodDescriptor.__get__", not bad, "; ".join(bad))
    for b_ in bad:
        rep.violate(Violation("C19.DIS", f"C19.DIS|{b_[:50]}", f"MethodDescriptor.__get__: {b_}", f"{g.module.relpath}:{g.node.lineno}", "MethodDescriptor.__get__"))
    rep.evaluations = len(rep.obligations)
    rep.sample({"locks": locks, "lazy_triggers": sorted(locked_names), "placeholders": len(ph)})


def check(ctx, rep):
    from . import metarules, shared
    _check_main(ctx, rep)
    from . import metarules, r5rules
    from . import shared as _sh
    _sh.borrow(ctx, rep, "c20", {"C20.LK": "C19.LK"})      # concurrent first instantiations copy defaults: the copyreg patch must be lock-disciplined
    r5rules.build_attr_spec_rules(ctx, rep, "C19.ATTR", ("target",))
    r5rules.new_wrapper_order(ctx, rep, "C19.NEWORD")
    metarules.decorator_snapshots(ctx, rep, "C19.SNAP")
    metarules.singular_cache(ctx, rep, "C19.CACHE")
