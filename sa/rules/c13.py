"""C13 — KeyedList is a list with unique keys and a coherent key index (structural clauses; the
equivalence with a plain list over all operation sequences is NOT decided).

The method set is the class's own methods plus every inherited MutableSequence/Sequence mixin body
parsed from the interpreter's _collections_abc.py, with calls bound to KeyedList's primitives.
C13.COH  _list and _dict are written only by the enumerated primitives, and on every normal path an
         insertion into / removal from one store is matched by the other
C13.AT   single-element operations (own primitives and the inherited append/pop/remove): nothing can
         fail (raise, primitive that may raise, key function) after the first write to either store
C13.BULK bulk mixins (extend, +=) are loops of atomic steps (a failing step leaves earlier ones)
C13.VAL  _validate_item checks item and key types when parameterised; insert validates and tests
         for a duplicate key before writing
C13.IDX  replacement writes the list slot in place (no delete + insert(index): wrong for negative indices)
C13.MIX  reverse() is overridden (the inherited swap-through-__setitem__ cannot work with unique keys)
C13.FWD  every type(self)(...) construction forwards the key function
C13.KEY  keys/items/get read only the key index; index_for_key scans the list by key equality
"""
from __future__ import annotations

import ast

from ..model import AnalysisError
from ..report import Report, Violation
from ..values import ARG, CLS, FRESH, IMM, RECV, Const, Sym, vrepr
from . import keyed
from .base import get_ctx, pmap, walk_own

META = {"assumptions": ["list and dict primitives are atomic", "the key function is deterministic (same key for the same item)",
                        "deleting a key from the index cannot fail while the coherence invariant (C13.COH) holds"],
        "trusted": ["sa abstract interpreter", "stdlib ast", "CPython's _collections_abc.py (parsed as source)"]}

WRITERS_ALLOWED = {"__init__": "creates both stores", "insert": "paired insert", "__delitem__": "paired delete",
                   "__setitem__": "paired replace", "reverse": "reorders the list only (the index is order-independent)"}
SINGLE_OPS = [("__setitem__", ["index_or_key", "value"], True), ("__setitem__", ["index_or_key", "value"], False),
              ("__delitem__", ["index_or_key"], True), ("__delitem__", ["index_or_key"], False),
              ("insert", ["index", "value"], None), ("append", ["value"], None), ("pop", ["index"], None),
              ("remove", ["value"], None)]
BULK_OPS = [("extend", ["values"]), ("__iadd__", ["values"]), ("clear", []), ("reverse", [])]


def op_worker(task):
    meth, params, is_int = task
    args = [Sym((p,), {ARG}, tags={"nonsentinel"}) for p in params]
    it, outs, c = keyed.run_method("KeyedList", meth, args, facts=keyed.int_index_facts(is_int) if is_int is not None else None,
                                   configure=lambda cfg: setattr(cfg, "record_truth_tests", True))
    if outs is None:
        return {"task": task, "missing": True}
    rows = []
    for o in outs:
        rows.append({"kind": o.kind, "exc": o.value.cls if o.kind == "exc" else None, "trace": [tuple(e) for e in o.state.trace]})
    truth = sorted({("/".join(map(str, t[0])), t[2]) for t in it.truth_tests})
    return {"task": task, "rows": rows, "owner": c.qualname, "functions": sorted(it.functions_entered), "truth": truth}


def _balance(trace):
    """(list adds, list removes, dict adds, dict removes) of a path."""
    la = lr = da = dr = 0
    for e in trace:
        if e[0] != "W":
            continue
        how, tgt = e[1], e[2]
        if tgt.startswith("self/._list"):
            if how in ("method:insert", "method:append"):
                la += 1
            elif how in ("delitem", "method:pop", "method:remove"):
                lr += 1
            elif how == "setitem":
                la += 1
                lr += 1
            elif how == "method:clear":
                lr += 100
        elif tgt.startswith("self/._dict"):
            if how == "setitem":
                da += 1
            elif how in ("delitem", "method:pop"):
                dr += 1
            elif how == "method:clear":
                dr += 100
    return la, lr, da, dr


def _after_dirty(trace):
    """Events that can fail after the first store write."""
    seen = False
    out = []
    for e in trace:
        if e[0] == "W":
            seen = True
            continue
        if not seen:
            continue
        if e[0] == "MR" and e[1].startswith(("delitem:self/._dict", "pop:self/._dict")):
            continue    # removing a key that the coherence invariant guarantees present
        if e[0] == "MR" and e[1].startswith("setitem:self/._dict"):
            continue    # dict store of a hashable key already used for the duplicate test
        if e[0] == "MR" and e[1].startswith("setitem:self/._list"):
            continue    # slot assignment at an index that was just read successfully
        if e[0] in ("R", "UR", "MR", "U", "RR"):
            out.append(e)
    return out


def _check_main(ctx, rep: Report):
    ci = ctx.p.find_class("KeyedList")
    mrel = ci.module.relpath
    # ---- COH: who may write
    rep.rules["C13.COH"] = "who-may-write the two stores + paired updates on every normal path of each writer"
    writers = {}
    for c in ctx.p.mro(ci):
        if not c.module.name.startswith(ctx.p.package):
            continue
        for name, defs in c.methods.items():
            for d in defs:
                for n in walk_own(d.node):
                    t = None
                    if isinstance(n, (ast.Assign, ast.AugAssign, ast.Delete)):
                        tg = n.targets if not isinstance(n, ast.AugAssign) else [n.target]
                        tg = [e_ for x_ in tg for e_ in (x_.elts if isinstance(x_, (ast.Tuple, ast.List)) else [x_])]
                        for x in tg:
                            s = ast.unparse(x)
                            if s.startswith("self._list") or s.startswith("self._dict"):
                                t = s
                            elif isinstance(x, (ast.Attribute, ast.Subscript)) and (
                                    ast.unparse(x).split("[")[0].endswith("._list") or ast.unparse(x).split("[")[0].endswith("._dict")):
                                t = s        # the stores of *another* container object (e.g. a result being built) written from outside its own primitives
                    if isinstance(n, ast.Call) and isinstance(n.func, ast.Attribute) and \
                            ast.unparse(n.func.value) in ("self._list", "self._dict") and \
                            n.func.attr in ("insert", "append", "pop", "remove", "clear", "extend", "reverse", "sort", "update", "setdefault", "popitem", "__setitem__", "__delitem__"):
                        t = ast.unparse(n.func)
                    if t and c.name in ("KeyedList", "KeyedBase"):
                        writers.setdefault(name, []).append((t, n.lineno))
    # private helpers called from an allowed primitive are part of that primitive (their writes are
    # judged through the caller's paired-update / atomicity obligations below)
    allowed = set(WRITERS_ALLOWED)
    changed = True
    while changed:
        changed = False
        for c_ in ctx.p.mro(ci):
            if c_.name not in ("KeyedList", "KeyedBase"):
                continue
            for name, defs in c_.methods.items():
                if name not in allowed:
                    continue
                for n in ast.walk(defs[0].node):
                    if isinstance(n, ast.Call) and isinstance(n.func, ast.Attribute) and ast.unparse(n.func.value) == "self" \
                            and n.func.attr.startswith("_") and not n.func.attr.startswith("__") and n.func.attr not in allowed:
                        allowed.add(n.func.attr)
                        changed = True
    for name, sites in writers.items():
        foreign = [s_ for s_ in sites if not s_[0].startswith("self.")]
        ok = name in allowed and not foreign
        if foreign:
            sites = foreign
        rep.oblige("C13.COH", f"writer:{name}", ok)
        if not ok:
            rep.violate(Violation("C13.COH", f"C13.COH|writer|{name}", f"KeyedList.{name} writes the stores directly (`{sites[0][0]}`) outside the paired primitives", f"{mrel}:{sites[0][1]}", f"KeyedList.{name}"))
    if not {"insert", "__delitem__", "__init__"} <= set(writers):
        raise AnalysisError(f"C13.COH: expected writers missing (found {sorted(writers)})")

    # ---- single-element ops: COH balance + AT + IDX
    rep.rules["C13.AT"] = "no failure point after the first store write in single-element operations (own + inherited mixins)"
    results = pmap(op_worker, SINGLE_OPS)
    for r in results:
        meth, params, is_int = r["task"]
        name = f"KeyedList.{meth}" + ("" if is_int is None else f"[{'index' if is_int else 'key'}]")
        if r.get("missing"):
            raise AnalysisError(f"C13: method {meth} not found")
        rep.functions |= set(r["functions"])
        rep.evaluations += len(r["rows"])
        rep.entry_points.add(name)
        coh_bad, at_bad, idx_bad = [], [], []
        nwrite = 0
        for row in r["rows"]:
            tr = row["trace"]
            rep.nontrivial.add((name, row["kind"], tuple(tr)))
            la, lr, da, dr = _balance(tr)
            if la or lr or da or dr:
                nwrite += 1
            if row["kind"] == "ok" and (la != da or lr != dr):
                coh_bad.append(f"a normal path changes the list ({la} in/{lr} out) and the key index ({da} in/{dr} out) differently")
            for e in _after_dirty(tr):
                fn, stmt = ctx.p.stmt_at(e[-1])
                at_bad.append((fn, stmt, e[0], e[-1]))
            if meth == "__setitem__" and is_int:
                hows = [e[1] for e in tr if e[0] == "W" and e[2].startswith("self/._list")]
                if row["kind"] == "ok" and hows and hows != ["setitem"]:
                    idx_bad.append(f"replacement edits the list with {hows} instead of assigning the slot in place")
                keys = [e[3] for e in tr if e[0] == "W" and e[2].startswith("self/._list") and e[1] == "setitem"]
                if any(k != "index_or_key" for k in keys):
                    idx_bad.append(f"assigns list position {keys} instead of the given index")
        for tok, site in r.get("truth", []):
            if tok.startswith("self/._dict/") and tok.count("/") == 2:       # an item looked up in the key index
                fn, stmt = ctx.p.stmt_at(site)
                rep.violate(Violation("C13.VAL", f"C13.VAL|truthiness|{fn}|{stmt}", f"{name}: `{stmt}` ({fn}) decides on the truthiness of a stored item (`{tok}`): falsy items (0, '', (), None) are treated as absent", site, fn))
                rep.oblige("C13.VAL", f"{name}[no truthiness of stored items]", False, stmt)
        if nwrite == 0 and meth not in ():
            raise AnalysisError(f"C13: no store write observed in {name}")
        rep.oblige("C13.COH", name, not coh_bad, "; ".join(sorted(set(coh_bad))))
        rep.oblige("C13.AT", name, not at_bad, f"{len(r['rows'])} paths")
        rep.sample({"entry": name, "defined_in": r["owner"], "paths": [row["trace"] for row in r["rows"][:2]]})
        for b in sorted(set(coh_bad)):
            rep.violate(Violation("C13.COH", f"C13.COH|{name}|{b[:60]}", f"{name}: {b}: lookups by key disagree with a scan of the list", "", name))
        for fn, stmt, kind, site in sorted(set(at_bad)):
            what = {"R": "raises", "RR": "re-raises", "UR": "key function may raise", "MR": "may raise", "U": "calls the key function / user code"}[kind]
            rep.violate(Violation("C13.AT", f"C13.AT|{name}|{fn}|{stmt}|{kind}", f"{name}: after a store was already changed, `{stmt}` ({fn}) {what}: a failing operation leaves the container changed / incoherent", site, fn))
        if meth == "__setitem__" and is_int:
            rep.oblige("C13.IDX", name, not idx_bad, "; ".join(sorted(set(idx_bad))))
            for b in sorted(set(idx_bad)):
                rep.violate(Violation("C13.IDX", f"C13.IDX|{b[:60]}", f"{name}: {b} (negative indices are misplaced)", "", name))

    # ---- BULK
    rep.rules["C13.BULK"] = "bulk mixins: loops of atomic steps"
    for r in pmap(op_worker, [(m, p, None) for m, p in BULK_OPS if m in ("extend", "__iadd__")]):
        meth = r["task"][0]
        rep.functions |= set(r["functions"])
        rep.evaluations += len(r["rows"])
        partial = sorted({(ctx.p.stmt_at(e[-1])) for row in r["rows"] for e in _after_dirty(row["trace"]) if e[0] in ("R", "UR")})
        rep.oblige("C13.BULK", f"KeyedList.{meth}", not partial, f"{len(r['rows'])} paths")
        for fn, stmt in partial[:1]:
            rep.violate(Violation("C13.BULK", f"C13.BULK|{meth}", f"KeyedList.{meth}: a later item can fail (`{stmt}`) after earlier items were already inserted: the operation is not all-or-nothing", "", f"KeyedList.{meth}"))

    # ---- VAL
    rep.rules["C13.VAL"] = "_validate_item decision table; insert validates and rejects duplicates before writing"

    def conf(cfg):
        cfg.emit_chk = True
    it, outs, c = keyed.run_method("KeyedList", "_validate_item", [Sym(("item",), {ARG}, tags={"nonsentinel"})],
                                   reducer=None, configure=lambda cfg: (setattr(cfg, "emit_chk", True), setattr(cfg, "record_decisions", True)),
                                   user_may_raise=False)
    bad = []
    param_rows = 0
    for o in outs:
        dec = {repr(k): v for k, v in o.state.decisions}
        hasargs = [v for k, v in dec.items() if "'hasattr'" in k and "__args__" in k]
        chks = [(e[1], e[2], e[3]) for e in o.state.trace if e[0] == "CHK"]
        if hasargs and hasargs[0]:
            param_rows += 1
            failed = [c_ for c_ in chks if c_[2] is False]
            if o.kind == "ok" and (len(chks) < 2 or failed):
                bad.append(f"a parameterised container accepts an item after {len(chks)} type checks ({chks})")
            if failed and not (o.kind == "exc" and o.value.cls == "TypeError"):
                bad.append(f"a failed type check ends in {o.kind}:{getattr(o.value, 'cls', '')} instead of TypeError")
    if param_rows == 0:
        raise AnalysisError("C13.VAL: parameterised branch of _validate_item not reached")
    rep.oblige("C13.VAL", "KeyedBase._validate_item", not bad, "; ".join(sorted(set(bad))[:2]))
    rep.evaluations += len(outs)
    for b in sorted(set(bad)):
        rep.violate(Violation("C13.VAL", f"C13.VAL|validate|{b[:60]}", f"KeyedBase._validate_item: {b}", "", "KeyedBase._validate_item"))
    ins = [r for r in results if r["task"][0] == "insert"][0]
    dup_raise = any(row["exc"] == "ValueError" and not any(e[0] == "W" for e in row["trace"]) for row in ins["rows"])
    rep.oblige("C13.VAL", "KeyedList.insert[duplicate]", dup_raise)
    if not dup_raise:
        rep.violate(Violation("C13.VAL", "C13.VAL|insert|dup", "KeyedList.insert no longer rejects a duplicate key with ValueError before writing", "", "KeyedList.insert"))

    # ---- MIX
    rep.rules["C13.MIX"] = "reverse overridden by the class"
    c, m = ctx.p.lookup_method(ci, "reverse")
    ok = c is not None and c.name == "KeyedList"
    rep.oblige("C13.MIX", "KeyedList.reverse", ok)
    if not ok:
        rep.violate(Violation("C13.MIX", "C13.MIX|reverse", "KeyedList inherits MutableSequence.reverse, which swaps items through __setitem__ and therefore hits the duplicate-key rejection for any list of two or more items", "", "KeyedList.reverse"))

    # ---- FWD
    rep.rules["C13.FWD"] = "type(self)(...) constructions forward the key function"
    nctor = 0
    for name, defs in ci.methods.items():
        for n in ast.walk(defs[0].node):
            if isinstance(n, ast.Call) and ast.unparse(n.func) in ("type(self)", "self.__class__"):
                nctor += 1
                args = [ast.unparse(a) for a in n.args[1:]] + [ast.unparse(k.value) for k in n.keywords if k.arg == "key"]
                ok = any(a in ("self.key", "self._key") for a in args)
                rep.oblige("C13.FWD", f"KeyedList.{name}", ok)
                if not ok:
                    rep.violate(Violation("C13.FWD", f"C13.FWD|{name}", f"KeyedList.{name} builds its result with `{ast.unparse(n)}` without the key function: items that need it are re-keyed or rejected", f"{mrel}:{n.lineno}", f"KeyedList.{name}"))
    if nctor < 1:
        raise AnalysisError(f"C13.FWD: {nctor} constructions found (floor 1)")

    # ---- KEY
    rep.rules["C13.KEY"] = "key views read only _dict; index_for_key scans _list by key equality"
    for name in ("keys", "items", "get"):
        d = ci.methods.get(name)
        bad = []
        if not d:
            bad.append("not defined")
        else:
            attrs = {ast.unparse(n) for n in ast.walk(d[0].node) if isinstance(n, ast.Attribute) and ast.unparse(n.value) == "self"}
            subs = [n for n in ast.walk(d[0].node) if isinstance(n, ast.Subscript) and ast.unparse(n.value) == "self"]
            if attrs != {"self._dict"} or subs:
                bad.append(f"reads {sorted(attrs) + ['self[...]'] * len(subs)} instead of only the key index")
        rep.oblige("C13.KEY", f"KeyedList.{name}", not bad, "; ".join(bad))
        for b in bad:
            rep.violate(Violation("C13.KEY", f"C13.KEY|{name}", f"KeyedList.{name} {b}: integer keys are taken for positions / results disagree with the key index", f"{mrel}:{d[0].node.lineno}" if d else "", f"KeyedList.{name}"))
    # membership: `x in kl` <=> x is a key of the index, or x equals (is / ==) an element of the list
    it, outs, c = keyed.run_method("KeyedList", "__contains__", [Sym(("value",), {ARG}, tags={"nonsentinel"})], reducer=None,
                                   configure=lambda cfg: setattr(cfg, "record_decisions", True), user_may_raise=False)
    bad = []
    npaths = 0
    for o in outs or []:
        if o.kind != "ok":
            continue
        npaths += 1
        pos = []
        for k, v in o.state.decisions:
            if k[0] == "in":
                item, cont = str(k[1]), str(k[2])
                if item == "('tok', ('value',))" and ("'._dict'" in cont or "'._list'" in cont):
                    pos.append(v)
                elif "'._dict'" in cont or "'._list'" in cont:
                    bad.append(f"membership is answered from `{item} in {cont}` (not the probed value itself): a non-member sharing a key with a member is reported present")
            elif k[0] in ("is", "eq") and "'value'" in repr(k) and "'[]'" in repr(k):
                pos.append(v)
        got = o.value.value if isinstance(o.value, Const) else None
        if got is None:
            bad.append(f"membership result `{vrepr(o.value)}` is not decided by key membership / element equality")
        elif bool(got) != any(pos):
            bad.append(f"returns {got} on a path where (key present or element equal) is {any(pos)}")
    if npaths < 4:
        raise AnalysisError(f"C13.KEY: {npaths} normal paths through KeyedList.__contains__ (floor 4)")
    rep.evaluations += npaths
    rep.oblige("C13.KEY", "KeyedList.__contains__", not bad, "; ".join(sorted(set(bad))[:2]))
    for b in sorted(set(bad))[:2]:
        rep.violate(Violation("C13.KEY", f"C13.KEY|__contains__|{b[:50]}", f"KeyedList.__contains__: {b}", "", "KeyedList.__contains__"))
    d = ci.methods.get("index_for_key")
    src = ast.unparse(d[0].node) if d else ""
    ok = "self._list" in src and "self.key(" in src and "== key" in src and "KeyError" in src
    rep.oblige("C13.KEY", "KeyedList.index_for_key", ok)
    if not ok:
        rep.violate(Violation("C13.KEY", "C13.KEY|index_for_key", "KeyedList.index_for_key no longer scans the list comparing key(element) == key", "", "KeyedList.index_for_key"))
    d = ci.methods.get("__getitem__")
    src = ast.unparse(d[0].node) if d else ""
    ok = "isinstance(index_or_key, int)" in src and "self._dict[index_or_key]" in src and "self._list[index_or_key]" in src
    rep.oblige("C13.KEY", "KeyedList.__getitem__", ok)
    if not ok:
        rep.violate(Violation("C13.KEY", "C13.KEY|__getitem__", "KeyedList.__getitem__ no longer serves ints from the list and other keys from the key index", "", "KeyedList.__getitem__"))


def check(ctx, rep):
    from . import keyedrules, metarules, shared
    _check_main(ctx, rep)
    keyedrules.order_bearing(ctx, rep, "C13.ORDER")
    keyedrules.key_precedence(ctx, rep, "C13.KEYFN")
    shared.unused_params(ctx, rep, "C13.PARAM", ["spec_classes.types.keyed"])
