"""Per-property rules.  Each module exposes check(ctx, rep) where ctx is rules.base.Ctx."""
