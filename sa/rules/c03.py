"""C03 — managed attributes always satisfy their declared type on every mutation route.

C03.A  mutate_attr: a value reaches the raw attribute write of a managed attribute only after
       check_type(value, attr_spec.type) succeeded on that path; independent of force / inplace
C03.TC who-may-skip: type_check=False is passed only with a value produced by a collection-mutator
       chain (whose inserters check every element)
C03.E  each mutator _inserter checks the element (and, for mappings, the key) before every
       element-storing write
C03.PREP CollectionAttrMutator.prepare accepts an incoming collection unchanged only after the whole
       collection passed check_type; otherwise every element is re-inserted through the inserter
C03.R  raw writes (the __setattr__.__raw__ idiom, object.__setattr__, __dict__ stores) occur only at
       the enumerated sites
"""
from __future__ import annotations

import ast

from ..model import AnalysisError
from ..report import Report, Violation
from ..runs import describe_path, run_function
from ..scenarios import MUTATOR_OF, recv_sym
from ..values import ARG, CLS, FRESH, IMM, RECV, Const, Sym, vrepr
from .base import get_ctx, pmap, site_allowed, walk_own

META = {
    "assumptions": ["check_type itself is correct (C15)", "declared defaults conform to their annotations",
                    "direct mutation of a contained list/dict by the user bypasses the API (out of scope)"],
    "trusted": ["sa abstract interpreter", "stdlib ast"],
}


def _is_check(k):
    return k[0] in ("check", "in") or (k[0] == "truthy" and isinstance(k[1], tuple) and
                               (k[1][-1].startswith("[") or k[1][-1] == ".__spec_class__"))


def a_worker(variant):
    inplace, force, type_check = variant
    ctx = get_ctx()
    fi = ctx.p.find_function("mutate_attr")
    value = Sym(("value",), {ARG}, tags={"nonsentinel"})
    kw = {"obj": recv_sym(), "attr": Sym(("attr",), {IMM}), "value": value, "inplace": Const(inplace),
          "force": Const(force)}
    if type_check is not None:
        kw["type_check"] = Const(type_check)

    def conf(cfg):
        cfg.guard_pred = _is_check
        cfg.user_may_raise = False
    it, outs = run_function(ctx.p, ctx.H, fi, [], kw, frozen=False, do_not_copy=None, configure=conf)
    rows = []
    for o in outs:
        for e in o.state.trace:
            if e[0] == "W" and e[1] == "rawset":
                g = dict(e[7])
                checked = any(k[0] == "check" and k[1] == repr(("tok", ("value",))) and k[2].endswith(".type") and v
                              for k, v in g.items())
                unmanaged = any(k[0] in ("truthy", "in") and v is False for k, v in g.items())
                rows.append({"checked": checked, "unmanaged": unmanaged, "site": e[-1], "desc": describe_path(o, 6)})
    return {"variant": variant, "rows": rows, "paths": len(outs), "functions": sorted(it.functions_entered)}


def e_worker(fam):
    ctx = get_ctx()
    ci = ctx.p.find_class(MUTATOR_OF[fam])
    c, m = ctx.p.lookup_method(ci, "_inserter")
    fi = m[0]
    selfv = Sym(("self",), {FRESH})
    params = [a.arg for a in fi.node.args.args][1:]
    kw = {p: Sym((p,), {ARG}, tags={"nonsentinel"} if p == "item" else ()) for p in params}

    def conf(cfg):
        cfg.sym_classes[("self",)] = ci
        cfg.guard_pred = lambda k: k[0] == "check"
        cfg.sym_method_filter = lambda c_, name: name not in ("attr_spec", "collection", "instance")
    it, outs = run_function(ctx.p, ctx.H, fi, [selfv], kw, configure=conf)
    rows = []
    for o in outs:
        for e in o.state.trace:
            if e[0] == "W" and e[2].startswith("self/.collection") and e[5] is not None:
                g = dict(e[7])
                item_ok = any(k[0] == "check" and k[1] == repr(("tok", ("item",))) and k[2].endswith(".item_type") and v
                              for k, v in g.items())
                key_ok = any(k[0] == "check" and k[1] == repr(("tok", ("index",))) and v for k, v in g.items())
                rows.append({"how": e[1], "value": e[5], "key": e[4], "item_ok": item_ok, "key_ok": key_ok,
                             "site": e[-1]})
    return {"fam": fam, "rows": rows, "paths": len(outs), "functions": sorted(it.functions_entered)}


def e2_worker(fam):
    """Same obligation as e_worker, from the public entry `add_item` (all flags symbolic): whatever closure / partial ends
    up storing the element, the store is guarded by a successful check of that very element."""
    import ast as _a
    from ..common import Outcome
    ctx = get_ctx()
    ci = ctx.p.find_class(MUTATOR_OF[fam])
    c, m = ctx.p.lookup_method(ci, "add_item")
    fi = m[0]
    from ..state import State
    from ..values import Inst, Ref
    st = State()
    addr = st.alloc("mutator", Inst(ci, {"attr_spec": Sym(("attr_spec",), {CLS}), "instance": recv_sym(),
                                         "collection": Sym(("coll",), {FRESH}, tags={"nonsentinel"})}, FRESH))
    a = fi.node.args
    names = [x.arg for x in a.args][1:] + [x.arg for x in a.kwonlyargs]
    kw = {n: Sym((n,), {ARG}, tags={"nonsentinel"} if n in ("item", "value", "key") else ()) for n in names}

    def conf(cfg):
        cfg.guard_pred = lambda k: k[0] == "check"
        cfg.loop_unroll = 1
        cfg.user_may_raise = False

        def stub_mv(interp, s, args, kwargs, frame, node):
            return [Outcome("ok", s, Sym(("item",), {ARG}, tags={"nonsentinel"}))]
        cfg.stubs["mutate_value"] = stub_mv
    it, outs = run_function(ctx.p, ctx.H, fi, [Ref(addr)], kw, configure=conf, state=st)
    rows = []
    for o in outs:
        for e in o.state.trace:
            if e[0] == "W" and e[2] == "coll" and e[5] is not None and e[1] in ("method:append", "method:insert", "setitem", "method:add"):
                g = dict(e[7])
                checked = set()
                for k, v in g.items():
                    if k[0] == "check" and v and str(k[2]).endswith(".item_type"):
                        try:
                            t = _a.literal_eval(k[1])
                            checked.add("/".join(map(str, t[1])) if t[0] == "tok" else str(t))
                        except Exception:
                            checked.add(str(k[1]))
                rows.append({"how": e[1], "value": e[5], "item_ok": e[5] in checked, "site": e[-1]})
    return {"fam": fam, "rows": rows, "paths": len(outs), "functions": sorted(it.functions_entered)}


def prep_worker(fam):
    ctx = get_ctx()
    ci = ctx.p.find_class(MUTATOR_OF[fam])
    c, m = ctx.p.lookup_method(ci, "prepare")
    fi = m[0]
    selfv = Sym(("self",), {FRESH})

    def conf(cfg):
        cfg.sym_classes[("self",)] = ci
        cfg.guard_pred = lambda k: k[0] == "check"
        cfg.sym_method_filter = lambda c_, name: name not in ("attr_spec", "collection", "instance")
        cfg.loop_unroll = 1
        cfg.user_may_raise = False
    # `self` must be a real heap instance so that `self.collection = ...` updates are tracked
    from ..state import State
    from ..values import Inst, Ref
    st = State()
    addr = st.alloc("mutator", Inst(ci, {"attr_spec": Sym(("attr_spec",), {CLS}),
                                         "instance": recv_sym(),
                                         "collection": Sym(("incoming",), {ARG}, tags={"nonsentinel"})}, FRESH))

    def conf2(cfg):
        conf(cfg)
        cfg.sym_classes.pop(("self",), None)
        cfg.watch_calls = {"." + n_ for n_ in _item_hooks(ctx, ci, fi)}
        cfg.guard_pred = lambda k: k[0] in ("check", "truthy", "isinstance")
    it, outs = run_function(ctx.p, ctx.H, fi, [Ref(addr)], {}, configure=conf2, state=st, family=fam)
    rows = []
    for o in outs:
        if o.kind != "ok":
            continue
        inst = o.state.heap.get(addr)
        coll = inst.fields.get("collection") if inst else None
        whole = any(k[0] == "check" and k[1] == repr(("tok", ("incoming",))) and k[2].endswith(".type") and v
                    for k, v in o.state.facts.items())
        unchecked_writes = []
        for e in o.state.trace:
            if e[0] == "W" and e[5] is not None and e[1] in ("method:append", "method:insert", "setitem", "method:add"):
                g = dict(e[7])
                if not any(k[0] == "check" and k[2].endswith(".item_type") and v and k[1] == repr(("tok", tuple(e[5].split("/")))) for k, v in g.items()):
                    if not any(k[0] == "check" and k[2].endswith(".item_type") and v for k, v in g.items()):
                        unchecked_writes.append((e[1], e[5], e[-1]))
        nonempty = any(k[0] == "truthy" and k[1] == ("incoming",) and v for k, v in o.state.facts.items())
        exact_builtin = any(k[0] == "isinstance" and k[1] == ("incoming",) and k[2] in ("builtins.list", "builtins.dict", "builtins.set") and v
                            for k, v in o.state.facts.items())
        rows.append({"collection": vrepr(coll), "whole_checked": whole, "unchecked_writes": unchecked_writes,
                     "nonempty": nonempty, "exact_builtin": exact_builtin,
                     "items_prepared": any(e[0] == "CALL" for e in o.state.trace),
                     "desc": describe_path(o, 6)})
    return {"fam": fam, "rows": rows, "paths": len(outs), "functions": sorted(it.functions_entered)}


def _item_hooks(ctx, ci, prepare_fi):
    """Names of the per-family hooks `prepare` calls on self: private methods without arguments that the family's
    mutator class (or one of its bases below the class defining `prepare`) overrides."""
    out = set()
    for n in walk_own(prepare_fi.node):
        if isinstance(n, ast.Call) and isinstance(n.func, ast.Attribute) and isinstance(n.func.value, ast.Name) \
                and n.func.value.id == "self" and n.func.attr.startswith("_") and not n.args and not n.keywords:
            r = ctx.p.lookup_method(ci, n.func.attr)
            if r and r[1] and prepare_fi.cls is not None and r[0] is not prepare_fi.cls:
                out.add(n.func.attr)
    if not out:
        raise AnalysisError(f"C03.PREP: {prepare_fi.qualname} calls no per-family item hook on self")
    return out


RAW_ALLOWED = {
    "mutate_attr": "the single raw attribute write of the package",
    "Alias.__setattr__": "Alias object's own attributes (not a spec instance)",
}
DICT_STORE_ALLOWED = {
    "DeepCopyMethod.deepcopy": "copies of already-checked values",
    "spec_property.__get__": "cache fill after prepare + check (C12)",
    "spec_property.__set__": "override slot of an overridable property",
    "spec_property.__delete__": "cache/override removal",
    "Alias.__setattr__": "invalidates the Alias object's own cached path",
}


def tc_worker(hid):
    """Interpret an element helper with mutate_attr summarised: for every call that skips the type check, did a
    collection-mutator operation (which checks each element it stores) run earlier on that path?"""
    from ..common import Outcome
    from ..runs import run_helper
    ctx = get_ctx()
    h = ctx.helpers[hid]
    seen = []

    def conf(cfg):
        cfg.user_may_raise = False
        cfg.loop_unroll = 1
        cfg.watch_calls = {"CollectionAttrMutator._mutate_collection", "Mutator.add_items", "Mutator.prepare", "Mutator.remove_item"}

        def stub_ma(interp, st, args, kwargs, frame, node):
            tc = kwargs.get("type_check")
            skipped = tc is not None and not (isinstance(tc, Const) and tc.value is True)
            ops = [e[1] for e in st.trace if e[0] == "CALL"]
            seen.append((interp.site(frame, node), skipped, bool(ops)))
            return [Outcome("ok", st, Sym(("mutated",), {FRESH}))]
        cfg.stubs["mutate_attr"] = stub_ma
    it, outs = run_helper(ctx.p, ctx.H, h, inplace=False, shape="given", configure=conf, cache=False)
    return {"hid": hid, "seen": sorted(set(seen)), "functions": sorted(it.functions_entered), "paths": len(outs)}


def e_rule(ctx, rep, rule="C03.E"):
    # ---- E
    rep.rules[rule] = "each _inserter: element-storing writes are guarded by check_type(item, attr_spec.item_type) (and the key by a key check for mappings)"
    for r in pmap(e_worker, ["sequence", "mapping", "set"]):
        rep.functions |= set(r["functions"])
        rep.evaluations += r["paths"]
        if not r["rows"]:
            raise AnalysisError(f"{rule}: no element write found in {r['fam']} _inserter")
        bad = [row for row in r["rows"] if not row["item_ok"]]
        badk = [row for row in r["rows"] if r["fam"] == "mapping" and row["how"] == "setitem" and not row["key_ok"]]
        rep.oblige(rule, f"{MUTATOR_OF[r['fam']]}._inserter[item]", not bad, f"{len(r['rows'])} writes")
        for row in r["rows"]:
            rep.nontrivial.add((r["fam"], row["how"], row["item_ok"], row["key_ok"]))
        rep.sample({"entry": f"{MUTATOR_OF[r['fam']]}._inserter", "writes": r["rows"][:3]})
        for row in bad[:2]:
            fn, stmt = ctx.p.stmt_at(row["site"])
            rep.violate(Violation(rule, f"{rule}|{fn}|{stmt}|item",
                                  f"{fn}: `{stmt}` stores an element that has not passed check_type(item, attr_spec.item_type) on this path",
                                  row["site"], fn))
        if r["fam"] == "mapping":
            rep.oblige(rule, "MappingMutator._inserter[key]", not badk)
            for row in badk[:1]:
                fn, stmt = ctx.p.stmt_at(row["site"])
                rep.violate(Violation(rule, f"{rule}|{fn}|{stmt}|key",
                                      f"{fn}: `{stmt}` stores a key that was never type-checked (element helpers call mutate_attr with type_check=False)",
                                      row["site"], fn))



def _check_main(ctx, rep: Report):
    # ---- A
    rep.rules["C03.A"] = "mutate_attr: raw write of a managed attribute is guarded by a successful check_type on every path, for all (inplace, force)"
    variants = [(i, f, None) for i in (False, True) for f in (False, True)]
    nraw = 0
    for r in pmap(a_worker, variants):
        rep.functions |= set(r["functions"])
        rep.evaluations += r["paths"]
        bad = [row for row in r["rows"] if not (row["checked"] or row["unmanaged"])]
        nraw += len(r["rows"])
        name = f"mutate_attr[inplace={r['variant'][0]},force={r['variant'][1]}]"
        rep.oblige("C03.A", name, not bad, f"{len(r['rows'])} raw-write paths")
        rep.sample({"entry": name, "raw_write_paths": r["rows"][:2]})
        for row in r["rows"]:
            rep.nontrivial.add((name, row["checked"], row["unmanaged"]))
        for row in bad[:1]:
            fn, stmt = ctx.p.stmt_at(row["site"])
            rep.violate(Violation("C03.A", f"C03.A|{fn}|{stmt}|inplace={r['variant'][0]}|force={r['variant'][1]}",
                                  f"a managed attribute is raw-written without a successful check_type(value, attr_spec.type) on the path (inplace={r['variant'][0]}, force={r['variant'][1]})",
                                  row["site"], fn, row["desc"], name))
    if nraw == 0:
        raise AnalysisError("C03.A: no raw write found in mutate_attr")

    # ---- TC
    rep.rules["C03.TC"] = "every mutate_attr(type_check=<not True>) call passes a collection-mutator chain as value"
    nsites = 0
    resolver = _ChainResolver(ctx.p)
    # semantic evidence per mutate_attr call site, from the interpreted element helpers
    sem = {}
    for r in pmap(tc_worker, [hid for hid, h_ in ctx.helpers.items() if h_.family in ("sequence", "mapping", "set")]):
        rep.functions |= set(r["functions"])
        rep.evaluations += r["paths"]
        for site_, skipped, after_op in r["seen"]:
            if skipped:
                sem.setdefault(site_, []).append(after_op)
    for fi in ctx.p.iter_functions():
        if fi.is_lambda:
            continue
        short = fi.qualname.split(":")[-1].split("#")[0]
        for node in walk_own(fi.node):
            if not (isinstance(node, ast.Call) and (ast.unparse(node.func).split(".")[-1] == "mutate_attr")):
                continue
            tc = [k for k in node.keywords if k.arg == "type_check"]
            if not tc or (isinstance(tc[0].value, ast.Constant) and tc[0].value.value is True):
                continue
            nsites += 1
            val = [k.value for k in node.keywords if k.arg == "value"]
            if not val and len(node.args) >= 3:
                val = [node.args[2]]
            site_ = f"{fi.module.relpath}:{node.lineno}"
            ok = bool(val) and (_is_mutator_chain(val[0]) or resolver.value_ok(fi, val[0], node.lineno))
            if not ok and sem.get(site_) and all(sem[site_]):
                ok = True          # on every interpreted path reaching this call a mutator operation produced the collection
                nsites += len(sem[site_]) - 1
            rep.oblige("C03.TC", f"{short}", ok)
            if not ok:
                site = f"{fi.module.relpath}:{node.lineno}"
                rep.violate(Violation("C03.TC", f"C03.TC|{short}",
                                      f"{short} calls mutate_attr with type_check={ast.unparse(tc[0].value)} for a value that is not the result of a collection-mutator chain: the value is stored unchecked",
                                      site, short))
    nsites += resolver.sites
    if nsites < 12:
        raise AnalysisError(f"C03.TC: {nsites} type_check=False sites (floor 12)")

    # ---- E (from the public entry)
    for r in pmap(e2_worker, ["sequence", "mapping", "set"]):
        rep.functions |= set(r["functions"])
        rep.evaluations += r["paths"]
        if not r["rows"]:
            raise AnalysisError(f"C03.E: no element store observed from {MUTATOR_OF[r['fam']]}.add_item")
        badrows = [row for row in r["rows"] if not row["item_ok"]]
        rep.oblige("C03.E", f"{MUTATOR_OF[r['fam']]}.add_item", not badrows, f"{len(r['rows'])} stores")
        for row in badrows[:1]:
            fn, stmt = ctx.p.stmt_at(row["site"])
            rep.violate(Violation("C03.E", f"C03.E|{MUTATOR_OF[r['fam']]}.add_item|{fn}|{row['how']}", f"{MUTATOR_OF[r['fam']]}.add_item: `{stmt}` ({fn}) stores an element that has not passed check_type(item, attr_spec.item_type) on this path",
                                  row["site"], fn))

    e_rule(ctx, rep)

    # ---- PREP
    rep.rules["C03.PREP"] = "prepare(): collection kept as-is only when check_type(collection, attr_spec.type) held; otherwise rebuilt through checked insertions"
    for r in pmap(prep_worker, ["sequence", "mapping", "set"]):
        rep.functions |= set(r["functions"])
        rep.evaluations += r["paths"]
        bad = []
        for row in r["rows"]:
            if row["collection"] == "incoming" and not row["whole_checked"]:
                bad.append("incoming collection accepted without passing check_type(collection, attr_spec.type)")
            if row["unchecked_writes"]:
                bad.append(f"element written unchecked: {row['unchecked_writes'][0]}")
            if row["collection"] == "incoming" and row["whole_checked"] and row["nonempty"] and not row["items_prepared"] \
                    and not row["exact_builtin"]:
                bad.append("a non-empty incoming collection is accepted without passing its elements through the (type-checking) item pass: "
                           "check_type only tests isinstance for keyed / custom generic containers, so ill-typed elements are stored")
        rep.oblige("C03.PREP", f"{MUTATOR_OF[r['fam']]}.prepare", not bad, f"{len(r['rows'])} normal paths")
        rep.sample({"entry": f"{MUTATOR_OF[r['fam']]}.prepare", "rows": r["rows"][:2]})
        for b in sorted(set(bad)):
            rep.violate(Violation("C03.PREP", f"C03.PREP|{r['fam']}|{b[:50]}", f"{MUTATOR_OF[r['fam']]}.prepare: {b}",
                                  "", f"{MUTATOR_OF[r['fam']]}.prepare"))

    # ---- R
    rep.rules["C03.R"] = "raw attribute writes and instance __dict__ stores exist only at the enumerated sites"
    nraw = ndict = 0
    for fi in ctx.p.iter_functions():
        if fi.is_lambda:
            continue
        short = fi.qualname.split(":")[-1].split("#")[0]
        for node in walk_own(fi.node):
            txt = None
            if isinstance(node, ast.Call):
                f = ast.unparse(node.func)
                if ("__setattr__" in f and ("__raw__" in f or f.startswith("object.") or f.startswith("super()"))) \
                        or (f.startswith("getattr(") and "__raw__" in f and "__setattr__" in f):
                    nraw += 1
                    ok = site_allowed(ctx, short, lambda s_: s_ in RAW_ALLOWED)
                    rep.oblige("C03.R", f"raw:{short}", ok)
                    if not ok:
                        rep.violate(Violation("C03.R", f"C03.R|raw|{short}", f"{short} performs a raw attribute write `{f}(...)` bypassing preparation, type check and invalidation",
                                              f"{fi.module.relpath}:{node.lineno}", short))
            if isinstance(node, (ast.Assign, ast.Delete)):
                targets = node.targets
                for t in targets:
                    if isinstance(t, ast.Subscript) and isinstance(t.value, ast.Attribute) and t.value.attr == "__dict__" \
                            and not ast.unparse(t.value.value).startswith("self") or \
                            (isinstance(t, ast.Subscript) and isinstance(t.value, ast.Attribute) and t.value.attr == "__dict__"
                             and short.startswith("Alias")):
                        ndict += 1
                        ok = site_allowed(ctx, short, lambda s_: s_ in DICT_STORE_ALLOWED)
                        rep.oblige("C03.R", f"dict:{short}", ok)
                        if not ok:
                            rep.violate(Violation("C03.R", f"C03.R|dict|{short}", f"{short} stores into an instance __dict__ directly (`{ast.unparse(t)}`), bypassing the type check",
                                                  f"{fi.module.relpath}:{node.lineno}", short))
    if nraw < 1 or ndict < 3:
        raise AnalysisError(f"C03.R: anchors vanished (raw={nraw}, dict stores={ndict})")


    # ---- VAL: validated / bounded types used as annotations conform exactly (shared with C15.B)
    rep.rules["C03.VAL"] = "bounded(): the validator rejects exactly the out-of-range values, including zero (falsy) bounds"
    import itertools
    from .c15 import bounded_worker
    combos = []
    for name in ("ge", "gt", "le", "lt"):
        for o in ("lt", "eq", "gt"):
            for truthy in (True, False):
                ordd = {k: None for k in ("ge", "gt", "le", "lt")}
                ordd[name] = o
                combos.append({"ord": ordd, "truthy": truthy})
    bad = []
    for r in pmap(bounded_worker, combos):
        o = r["combo"]["ord"]
        exp = not ((o["ge"] == "lt") or (o["gt"] in ("lt", "eq")) or (o["le"] == "gt") or (o["lt"] in ("gt", "eq")))
        if r["res"] != [("ok", exp)]:
            which = ", ".join(f"obj {dict(lt='<', eq='==', gt='>')[v]} {k}" for k, v in o.items() if v)
            bad.append(f"{which}{'' if r['combo']['truthy'] else ' (bound is 0 / falsy)'}: expected {exp}, got {r['res']}")
    rep.evaluations += len(combos)
    rep.oblige("C03.VAL", "bounded.validator", not bad, "; ".join(bad[:2]))
    for b in sorted(set(bad))[:3]:
        rep.violate(Violation("C03.VAL", f"C03.VAL|{b[:80]}", f"bounded(): {b}: out-of-range values are stored in attributes annotated with the bounded type", "", "bounded.<locals>.validator"))


MUTATOR_OPS = ("add_item", "add_items", "transform_item", "remove_item", "prepare")


def _is_mutator_chain(expr) -> bool:
    """<x>.get_collection_mutator(...).<op>(...)[.<op>(...)]*.collection"""
    if not (isinstance(expr, ast.Attribute) and expr.attr == "collection"):
        return False
    cur = expr.value
    ops = 0
    while isinstance(cur, ast.Call) and isinstance(cur.func, ast.Attribute):
        name = cur.func.attr
        if name == "get_collection_mutator":
            return ops >= 1
        if name not in MUTATOR_OPS:
            return False
        ops += 1
        cur = cur.func.value
    return False


class _ChainResolver:
    """Resolves `value=` expressions of mutate_attr(type_check=False) calls to collection-mutator chains
    through local names (reaching assignments) and helper parameters (all static call sites)."""

    def __init__(self, p):
        self.p = p
        self.callers = {}
        from .base import static_callees
        for fi in p.iter_functions():
            if fi.is_lambda:
                continue
            for node, g in static_callees(p, fi):
                self.callers.setdefault(g.qualname, []).append((fi, node))
        self.sites = 0

    def value_ok(self, fi, expr, line, depth=0):
        """expr evaluates to <mutator>.collection with >=1 mutator operation applied."""
        if depth > 6:
            return False
        if isinstance(expr, ast.Attribute) and expr.attr == "collection":
            n = self.mutator_ops(fi, expr.value, line, depth)
            return n is not None and n >= 1
        if isinstance(expr, ast.Name):
            return self._via_name(fi, expr.id, line, depth, lambda f, e, l, d: self.value_ok(f, e, l, d))
        return False

    def mutator_ops(self, fi, expr, line, depth):
        """number of mutator operations applied on top of get_collection_mutator(), or None."""
        if depth > 6:
            return None
        if isinstance(expr, ast.Call) and isinstance(expr.func, ast.Attribute):
            name = expr.func.attr
            if name == "get_collection_mutator":
                return 0
            if name in MUTATOR_OPS:
                n = self.mutator_ops(fi, expr.func.value, line, depth)
                return None if n is None else n + 1
            return None
        if isinstance(expr, ast.Name):
            res = []

            def rec(f, e, l, d):
                n = self.mutator_ops(f, e, l, d)
                res.append(n)
                return n is not None
            if not self._via_name(fi, expr.id, line, depth, rec):
                return None
            return min(res) if res else None
        return None

    def _via_name(self, fi, name, line, depth, rec):
        top = {id(s) for s in fi.node.body}
        assigns = []
        for n in walk_own(fi.node):
            if isinstance(n, ast.Assign) and len(n.targets) == 1 and isinstance(n.targets[0], ast.Name) \
                    and n.targets[0].id == name and n.lineno < line:
                assigns.append(n)
            elif isinstance(n, (ast.AugAssign, ast.AnnAssign, ast.NamedExpr, ast.For, ast.With)) and name in {
                    x.id for x in ast.walk(getattr(n, "target", None) or ast.Tuple(elts=[])) if isinstance(x, ast.Name)} \
                    and n.lineno < line:
                return False
        assigns.sort(key=lambda n: -n.lineno)
        for a in assigns:
            if not rec(fi, a.value, a.lineno, depth + 1):
                return False
            if id(a) in top:             # dominates the use: earlier assignments are dead
                return True
        if assigns:
            # only conditional assignments: the parameter/earlier value may also reach the use
            pass
        params = [x.arg for x in fi.node.args.posonlyargs + fi.node.args.args + fi.node.args.kwonlyargs]
        if name not in params:
            return bool(assigns) and False
        callers = self.callers.get(fi.qualname, [])
        if not callers:
            return False
        pos = [x.arg for x in fi.node.args.posonlyargs + fi.node.args.args]
        for cfi, call in callers:
            arg = None
            for k in call.keywords:
                if k.arg == name:
                    arg = k.value
            if arg is None and name in pos:
                i = pos.index(name)
                if fi.cls is not None and pos and pos[0] in ("self", "cls") and isinstance(call.func, ast.Attribute) \
                        and not any(isinstance(d, ast.Name) and d.id == "staticmethod" for d in fi.node.decorator_list):
                    i -= 1
                if 0 <= i < len(call.args) and not any(isinstance(x, ast.Starred) for x in call.args):
                    arg = call.args[i]
            if arg is None or not rec(cfi, arg, call.lineno, depth + 1):
                return False
            self.sites += 1
        self.sites -= 1          # the helper's own site was already counted once
        return True


def check(ctx, rep):
    from . import metarules, shared
    _check_main(ctx, rep)
    from . import metarules, r5rules
    r5rules.property_rules(ctx, rep, "C03.PROP", ("order",))
    metarules.inherited_rebuild(ctx, rep, "C03.META")
    from .c15 import shapes_rule
    shapes_rule(ctx, rep, "C03.CT")     # the checker every route relies on
    metarules.attr_spec_fresh(ctx, rep, "C03.SPEC")     # a shared Attr object makes one attribute take another's type
