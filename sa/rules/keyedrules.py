"""Rules about KeyedList / KeyedSet / KeyedBase shared by C13, C14, C06 and C10."""
from __future__ import annotations

import ast

from ..model import AnalysisError
from ..report import Report, Violation
from ..values import ARG, CLS, FRESH, IMM, RECV, Const, Sym, vrepr
from . import keyed

ORDER_BEARING = ("__iter__", "__reversed__", "index", "count", "__len__", "__eq__", "__ne__")


def order_bearing(ctx, rep: Report, rule: str):
    """List semantics (order, multiplicity, element equality) are answered from `_list` only: a KeyedList's own
    definition of an order/equality-bearing method never consults the key index or the key function (dict order is
    insertion order, not list order; key equality is not element equality)."""
    rep.rules[rule] = "own definitions of order/equality-bearing sequence methods read only _list"
    ci = ctx.p.find_class("KeyedList")
    n = 0
    for name in ORDER_BEARING:
        defs = ci.methods.get(name)
        if not defs:
            continue          # inherited mixin: built on __getitem__(int) / __len__, which C13.KEY pins to _list
        n += 1
        node = defs[0].node
        hits = sorted({ast.unparse(x) for x in ast.walk(node)
                       if (isinstance(x, ast.Attribute) and x.attr in ("_dict", "_key", "index_for_key", "keys", "items", "get") and ast.unparse(x.value) in ("self", "other"))
                       or (isinstance(x, ast.Call) and ast.unparse(x.func) in ("self.key", "other.key"))})
        ok = not hits
        rep.oblige(rule, f"KeyedList.{name}", ok, str(hits))
        if not ok:
            rep.violate(Violation(rule, f"{rule}|{name}|{hits[0]}", f"KeyedList.{name} answers a list question from the key index / key function (`{hits[0]}`): order is the dict's insertion order and matching is by key, so the result disagrees with the plain list holding the same items",
                                  f"{defs[0].module.relpath}:{node.lineno}", f"KeyedList.{name}"))
    if n < 1:
        raise AnalysisError(f"{rule}: KeyedList defines none of {ORDER_BEARING}")


def keyedset_eq(ctx, rep: Report, rule: str):
    """KeyedSet == KeyedSet is decided by comparing the two key->item dictionaries (same keys, equal items, order
    irrelevant) and by nothing else."""
    rep.rules[rule] = "decision structure of KeyedSet.__eq__ for a KeyedSet operand"
    ci = ctx.p.find_class("KeyedSet")
    other = Sym(("other",), {ARG}, tags={"nonsentinel"})

    def conf(cfg):
        cfg.record_decisions = True
        cfg.sym_classes[("other",)] = ci
        cfg.fact_defaults.append(lambda k: True if (k[0] == "isinstance" and k[1] == ("other",) and str(k[2]).endswith("KeyedSet")) else None)
    it, outs, c = keyed.run_method("KeyedSet", "__eq__", [other], reducer=None, configure=conf, user_may_raise=False)
    if outs is None:
        raise AnalysisError(f"{rule}: KeyedSet.__eq__ not found")
    rep.functions |= set(it.functions_entered)
    rep.evaluations += len(outs)
    bad = []
    npaths = 0
    for o in outs:
        if o.kind != "ok":
            continue
        npaths += 1
        dict_eq = None
        others = []
        for k, v in o.state.decisions:
            r = repr(k)
            if k[0] == "isinstance":
                continue
            if k[0] == "eq" and {str(k[1]), str(k[2])} == {"('tok', ('self', '._dict'))", "('tok', ('other', '._dict'))"}:
                dict_eq = v
            else:
                others.append(r[:90])
        res = o.value.value if isinstance(o.value, Const) else None
        if others:
            bad.append(f"the verdict also depends on {others[0]} (membership is by key only unless enforce_item_equivalence; value lists are order-sensitive)")
        elif dict_eq is None or res is None or bool(res) != dict_eq:
            bad.append(f"returns {vrepr(o.value)} without comparing the two key->item dictionaries")
    if npaths < 2:
        raise AnalysisError(f"{rule}: {npaths} normal paths through KeyedSet.__eq__ (floor 2)")
    rep.oblige(rule, "KeyedSet.__eq__[KeyedSet]", not bad, "; ".join(sorted(set(bad))[:2]))
    for b in sorted(set(bad))[:2]:
        rep.violate(Violation(rule, f"{rule}|{b[:60]}", f"KeyedSet.__eq__: {b}", "", "KeyedSet.__eq__"))


def keyedset_init(ctx, rep: Report, rule: str):
    """The constructor fills the set through add() (validation + equivalence check), never by writing the index."""
    rep.rules[rule] = "KeyedSet.__init__ inserts only through add()"
    ci = ctx.p.find_class("KeyedSet")
    d = ci.methods.get("__init__")
    if not d:
        raise AnalysisError(f"{rule}: KeyedSet.__init__ not found")
    node = d[0].node
    bad = []
    for x in ast.walk(node):
        if isinstance(x, ast.Call) and isinstance(x.func, ast.Attribute) and ast.unparse(x.func.value) == "self._dict" \
                and x.func.attr in ("update", "setdefault", "__setitem__"):
            bad.append(ast.unparse(x)[:70])
        if isinstance(x, (ast.Assign, ast.AugAssign)):
            for t in (x.targets if isinstance(x, ast.Assign) else [x.target]):
                if isinstance(t, ast.Subscript) and ast.unparse(t.value) == "self._dict":
                    bad.append(ast.unparse(x)[:70])
                if isinstance(x, ast.Assign) and ast.unparse(t) == "self._dict" and not (isinstance(x.value, ast.Dict) and not x.value.keys):
                    bad.append(ast.unparse(x)[:70])
    adds = [x for x in ast.walk(node) if isinstance(x, ast.Call) and ast.unparse(x.func) == "self.add"]
    if not adds and not bad:
        bad.append("no call of self.add")
    rep.oblige(rule, "KeyedSet.__init__", not bad, "; ".join(bad))
    for b in bad[:2]:
        rep.violate(Violation(rule, f"{rule}|{b[:50]}", f"KeyedSet.__init__ fills the key index directly (`{b}`) instead of through add(): items supplied to the constructor (and every result of |, &, -, ^ built by _from_iterable) skip validation and the enforce_item_equivalence collision check",
                              f"{d[0].module.relpath}:{node.lineno}", "KeyedSet.__init__"))


def key_precedence(ctx, rep: Report, rule: str):
    """KeyedBase.key: an explicit key function given to the container decides the key of every item; the spec-class
    key / hashable-item defaults apply only when no key function was given."""
    rep.rules[rule] = "decision structure of KeyedBase.key: explicit key function first"
    it, outs, c = keyed.run_method("KeyedList", "key", [Sym(("item",), {ARG}, tags={"nonsentinel"})], reducer=None,
                                   configure=lambda cfg: (setattr(cfg, "record_decisions", True), setattr(cfg, "record_truth_tests", True)),
                                   user_may_raise=False)
    if outs is None:
        raise AnalysisError(f"{rule}: key() not found")
    rep.functions |= set(it.functions_entered)
    rep.evaluations += len(outs)
    bad = []
    npaths = 0
    for o in outs:
        if o.kind != "ok":
            continue
        npaths += 1
        has_key = None
        for k, v in o.state.decisions:
            if k[0] == "truthy" and tuple(k[1]) == ("self", "._key"):
                has_key = v
            if k[0] == "is" and "'._key'" in repr(k) and "None" in repr(k):
                has_key = (not v) if has_key is None else has_key
        ret = vrepr(o.value)
        from_fn = ret.startswith("call/self/._key")
        if has_key is True and not from_fn:
            bad.append(f"with a key function given, returns `{ret}` instead of the key function's result")
        if has_key is None and not from_fn:
            bad.append(f"returns `{ret}` on a path that never asked whether a key function was given (the item's own spec-class key / the item itself wins over the explicit key function)")
        if has_key is False and from_fn:
            bad.append("calls a key function that was not given")
    for t in it.truth_tests:
        tok = "/".join(map(str, t[0]))
        if tok.startswith("item/.{"):      # getattr(item, <key attribute>): the key *value*
            bad.append(f"decides on the truthiness of the key value `{tok}`: an item whose key is 0 / '' / False is keyed by something else (the item itself)")
    if npaths < 3:
        raise AnalysisError(f"{rule}: {npaths} normal paths through key() (floor 3)")
    rep.oblige(rule, "KeyedBase.key", not bad, "; ".join(sorted(set(bad))[:2]))
    for b in sorted(set(bad))[:2]:
        rep.violate(Violation(rule, f"{rule}|{b[:60]}", f"KeyedBase.key: {b}", "", "KeyedBase.key"))
