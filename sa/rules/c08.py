"""C08 — instances share no mutable state with defaults, constructor arguments or peers.

C08.FR  Attr.lookup_default_value / Attr.default_value return a fresh copy, a factory result, an
        immutable atom or MISSING on every path (never the class-level object itself)
C08.IN  InitMethod.init stores a caller-supplied value only after copying it, unless the attribute is
        do_not_copy, both when initialising the instance's own class and when forwarding keywords
        to a parent constructor
C08.DEL __delattr__ re-installs a fresh default obtained from lookup_default_value(type(self))
C08.RD  who-may-read: raw Attr.default / default_factory are read only at the whitelisted sites
"""
from __future__ import annotations

import ast

from ..model import AnalysisError
from ..report import Report, Violation
from ..runs import describe_path, run_function
from ..scenarios import core_impl, recv_sym
from ..common import Outcome
from ..values import ARG, CLS, FRESH, IMM, RECV, USER, Const, Sentinel, Sym, vrepr
from .base import get_ctx, immutable_reprs, pmap, walk_own

META = {
    "assumptions": [
        "declared defaults conform to their annotations",
        "default factories return new objects",
        "copy.deepcopy returns a graph disjoint from its argument except for immutable atoms",
    ],
    "trusted": ["sa abstract interpreter", "stdlib ast"],
}

RD_WHITELIST = {
    # function-qualname suffix: reason
    "MethodBuilder.with_spec_attrs_for": "signature display only (default shown in the advertised signature)",
    "spec_class.build_attr_spec": "consumes a declared Attr/Field: moves its default onto the class; probes __spec_class_invalidated_by__",
    "Attr.from_attr_value": "builds the Attr from a dataclasses.Field",
    "Attr.__init__": "constructor of Attr",
    "Attr.__set_name__": "forwards __set_name__ to a descriptor default",
    "Attr.default_value": "the accessor that copies / evaluates the factory",
    "Attr.has_default": "presence test only",
}


def attr_class_fn(ctx):
    attr_ci = ctx.p.find_class("Attr")

    def fn(tok):
        if tok == ("attr_spec",):
            return attr_ci
        if ".attrs" in tok and (str(tok[-1]).startswith("[") or (len(tok) >= 2 and tok[-2] == "val")):
            return attr_ci
        return None
    return fn, attr_ci


ATTR_METHODS = {"lookup_default_value", "default_value", "has_default"}


def _conf_attr(ctx, extra=None):
    fn, attr_ci = attr_class_fn(ctx)

    def conf(cfg):
        cfg.sym_class_fns.append(fn)
        cfg.sym_method_filter = lambda ci, name: (ci is not attr_ci) or name in ATTR_METHODS
        cfg.constructor_attrs = cfg.constructor_attrs | {".default_factory"}
        cfg.record_decisions = True
        cfg.loop_unroll = 1
        if extra:
            extra(cfg)
    return conf


# -------------------------------------------------------------------- FR
def fr_worker(which):
    ctx = get_ctx()
    attr_ci = ctx.p.find_class("Attr")
    c, m = ctx.p.lookup_method(attr_ci, which)
    fi = m[0]
    selfv = Sym(("attr_spec",), {CLS})
    args = [selfv] + ([Sym(("spec_cls",), {CLS})] if which == "lookup_default_value" else [])
    it, outs = run_function(ctx.p, ctx.H, fi, args, {}, configure=_conf_attr(ctx, lambda cfg: setattr(cfg, "watch_calls", {"Attr.default_value"})))
    rows = []
    for o in outs:
        v = o.value
        rows.append({"kind": o.kind, "ret": vrepr(v) if o.kind == "ok" else v.cls,
                     "prov": sorted(v.prov) if isinstance(v, Sym) else [],
                     "default_value_called": any(e[0] == "CALL" for e in o.state.trace),
                     "sentinel": isinstance(v, Sentinel), "imm": sorted(immutable_reprs(o.state.facts)),
                     "desc": describe_path(o, 6),
                     "dec": [f"{k[0]}:{'/'.join(map(str, k[1])) if isinstance(k[1], tuple) else k[1]}{'~owner' if 'owner' in repr(k) else ''}={b}"
                             for k, b in o.state.decisions if k[0] not in ("isinstance",)][:10]})
    return {"which": which, "rows": rows, "functions": sorted(it.functions_entered)}


# -------------------------------------------------------------------- IN
def in_worker(role):
    ctx = get_ctx()
    fi = core_impl(ctx.H, "init").impl
    selfv = recv_sym()
    spec_cls = Sym(("spec_cls",), {CLS})

    def stub_prepare(interp, st, args, kwargs, frame, node):
        a = [x for x in args if not isinstance(x, tuple)]
        v = kwargs.get("value", a[2] if len(a) > 2 else None)
        return [Outcome("ok", st, v)]

    def extra(cfg):
        cfg.stubs["prepare_attr_value"] = stub_prepare
        cfg.user_may_raise = False
        cfg.record_decisions = False
        cfg.guard_pred = lambda k: (k[0] == "truthy" and isinstance(k[1], tuple) and k[1][-1] == ".do_not_copy") \
            or k[0] == "immutable"
    owner_key = ("is", ("self", ".__spec_class__", ".owner"), ("tok", ("spec_cls",)))
    facts = {}
    # `instance_metadata.owner is spec_cls`
    a, b = sorted([("self", ".__spec_class__", ".owner"), ("spec_cls",)])
    facts[("is", a, ("tok", b))] = (role == "own")
    it, outs = run_function(ctx.p, ctx.H, fi, [spec_cls, selfv], {"**": Sym(("kwargs", "[]"), {ARG})},
                            configure=_conf_attr(ctx, extra), extra_facts=facts, initializing=True,
                            attr_do_not_copy=None)
    rows = []
    for o in outs:
        stores = []
        for e in o.state.trace:
            if e[0] == "W" and e[1] == "rawset":
                stores.append(("rawset", e[5], tuple(e[6] or ()), e[-1], _guarded(e[7], e[5])))
            if e[0] == "U" and e[1].endswith("__init__"):
                for arg in e[3]:
                    stores.append(("parent.__init__", arg[1], tuple(arg[2:]), e[-1], _guarded(e[4], arg[1])))
        rows.append({"kind": o.kind, "stores": stores,
                     "imm": sorted(immutable_reprs(o.state.facts)), "desc": describe_path(o, 8)})
    return {"role": role, "rows": rows, "functions": sorted(it.functions_entered)}


def _guarded(guards, val):
    """do_not_copy holds on this path, or the value is an immutable atom."""
    for k, v in guards:
        if v and k[0] == "truthy" and k[1][-1] == ".do_not_copy":
            return True
        if v and k[0] == "immutable" and "/".join(map(str, k[1])) == val:
            return True
    return False


# ------------------------------------------------------------------- DEL
def del_worker(_):
    ctx = get_ctx()
    fi = core_impl(ctx.H, "__delattr__").impl
    selfv = recv_sym()

    def extra(cfg):
        cfg.user_may_raise = False
    it, outs = run_function(ctx.p, ctx.H, fi, [selfv, Sym(("attr",), {IMM})], {},
                            configure=_conf_attr(ctx, extra), frozen=False)
    rows = []
    for o in outs:
        stores = [(e[1], e[5], tuple(e[6] or ()), e[-1]) for e in o.state.trace if e[0] == "W"]
        calls = [e[1] for e in o.state.trace if e[0] == "CALL"]
        rows.append({"kind": o.kind, "stores": stores, "imm": sorted(immutable_reprs(o.state.facts)),
                     "desc": describe_path(o, 8)})
    return {"rows": rows, "functions": sorted(it.functions_entered),
            "lookup_called": "spec_classes.types.attr:Attr.lookup_default_value" in it.functions_entered}


def peer_rule(ctx, rep, rule="C08.PEER"):
    # ---- PEER: the instance returned by a copy-on-write helper is a deep copy (shared with C02.S)
    rep.rules[rule] = "copy-on-write helpers return a deep copy: no mutable state shared with the peer it was derived from"
    from . import c02, provrun
    tasks = [t for t in provrun.helper_tasks(ctx, families=False) if t[0].startswith("Reset")]
    for r in pmap(c02.worker, tasks):
        rep.evaluations += len(r["paths"])
        shallow = [v for v in r["viols"] if v["how"] in ("shallow-copy", "return")]
        rep.oblige(rule, r["entry"], not shallow)
        for v in shallow[:1]:
            rep.violate(Violation(rule, f"{rule}|{r['task'][0]}", f"{r['task'][0]} returns a shallow / memo-seeded copy (`{v['value']}`): the result and the receiver share every other attribute's nested value",
                                  "", r["task"][0], v["path"], r["entry"]))



def _check_main(ctx, rep: Report):
    # ---- FR
    rep.rules["C08.FR"] = "every return of lookup_default_value/default_value is fresh, a factory result, immutable or MISSING"
    for r in pmap(fr_worker, ["lookup_default_value", "default_value"]):
        rep.functions |= set(r["functions"])
        rep.evaluations += len(r["rows"])
        bad = []
        n_fresh = 0
        for row in r["rows"]:
            if row["kind"] != "ok":
                continue
            if row["sentinel"] and row["ret"] == "MISSING":
                continue
            if "FRESH" in row["prov"]:
                n_fresh += 1
                continue
            if row["ret"] in row["imm"]:
                continue
            bad.append(f"returns `{row['ret']}` ({'+'.join(row['prov']) or 'atom'}) uncopied [{'; '.join(row['dec'][-3:])}]")
            rep.nontrivial.add((r["which"], row["ret"]))
        if n_fresh == 0:
            raise AnalysisError(f"C08.FR: no copying path found in Attr.{r['which']}")
        rep.oblige("C08.FR", f"Attr.{r['which']}", not bad, "; ".join(bad[:2]) or f"{len(r['rows'])} paths")
        rep.sample({"entry": f"Attr.{r['which']}", "rows": r["rows"][:3]})
        for b in sorted(set(bad)):
            rep.violate(Violation("C08.FR", f"C08.FR|Attr.{r['which']}|{b.split(' [')[0][:60]}", f"Attr.{r['which']} {b}",
                                  "", f"Attr.{r['which']}", [], r["which"]))

    # ---- IN
    rep.rules["C08.IN"] = ("InitMethod.init, as the instance's own class and as a parent: a keyword value reaches the raw "
                           "write / the parent constructor only copied, unless the attribute is do_not_copy")
    for r in pmap(in_worker, ["own", "parent"]):
        rep.functions |= set(r["functions"])
        rep.evaluations += len(r["rows"])
        bad = []
        n_arg_stores = 0
        for row in r["rows"]:
            for how, val, prov, site, dnc in row["stores"]:
                if "ARG" in prov and val not in row["imm"]:
                    n_arg_stores += 1
                    # in the parent role the copy was made by the subclass constructor before forwarding
                    if r["role"] == "parent" and how == "rawset":
                        continue
                    if not dnc:
                        bad.append((how, val, site))
                        rep.nontrivial.add((r["role"], how, site))
        rep.oblige("C08.IN", f"InitMethod.init[{r['role']}]", not bad,
                   f"{len(r['rows'])} paths" + (f"; uncopied: {bad[:2]}" if bad else ""))
        rep.sample({"entry": f"InitMethod.init[{r['role']}]", "rows": r["rows"][:2]})
        for how, val, site in sorted(set(bad)):
            fn, stmt = ctx.p.stmt_at(site)
            rep.violate(Violation("C08.IN", f"C08.IN|{r['role']}|{how.split(' ')[0]}|{fn}|{stmt}",
                                  f"constructor ({r['role']} role) passes the caller's object `{val}` to {how} without copying and without do_not_copy: `{stmt}`",
                                  site, fn, [], f"InitMethod.init[{r['role']}]"))

    # ---- DEL
    rep.rules["C08.DEL"] = "__delattr__: the re-installed default is fresh (never a class-level object) and comes from lookup_default_value"
    r = pmap(del_worker, [0])[0]
    rep.functions |= set(r["functions"])
    rep.evaluations += len(r["rows"])
    bad = []
    nset = 0
    for row in r["rows"]:
        for how, val, prov, site in row["stores"]:
            if how == "rawset":
                nset += 1
                if "FRESH" not in prov and val not in row["imm"] and "USER" not in prov:
                    bad.append((val, prov, site))
    if nset == 0:
        raise AnalysisError("C08.DEL: __delattr__ has no default re-install path (anchor vanished)")
    if not r["lookup_called"]:
        bad.append(("<default>", ("not from lookup_default_value",), ""))
    rep.oblige("C08.DEL", "DelAttrMethod.__delattr__", not bad, str(bad[:2]) if bad else f"{len(r['rows'])} paths")
    for val, prov, site in bad:
        fn, stmt = ctx.p.stmt_at(site) if site else ("DelAttrMethod.__delattr__", "")
        rep.violate(Violation("C08.DEL", f"C08.DEL|{'+'.join(prov)}|{stmt}",
                              f"__delattr__ re-installs `{val}` ({'+'.join(prov)}): reset/del must yield the fresh default a new instance of type(self) gets",
                              site, fn, [], "__delattr__"))

    # ---- RD (who-may-read)
    rep.rules["C08.RD"] = "reads of .default / .default_factory outside class Attr only at whitelisted sites"
    reads = []
    for fi in ctx.p.iter_functions():
        if fi.is_lambda:
            continue
        short = fi.qualname.split(":")[-1].split("#")[0]
        for node in walk_own(fi.node):
            if isinstance(node, ast.Attribute) and node.attr in ("default", "default_factory") \
                    and isinstance(node.ctx, ast.Load):
                base = ast.unparse(node.value)
                if base in ("self",) and fi.cls is not None and fi.cls.name == "Attr":
                    continue
                ann = {a_.arg: ast.unparse(a_.annotation) for a_ in fi.node.args.args + fi.node.args.kwonlyargs if a_.annotation is not None}
                if "Field" in ann.get(base, "") or "Parameter" in ann.get(base, ""):
                    continue       # a dataclasses.Field / inspect.Parameter, not an Attr
                if base.startswith("inspect.") or base.endswith("Parameter") or base in ("p", "impl_param", "method_param", "value") and "Attr" not in short and "build_attr_spec" not in short:
                    if base in ("p", "impl_param", "method_param"):
                        continue   # inspect.Parameter.default
                reads.append((short, base, node.attr, f"{fi.module.relpath}:{node.lineno}"))
    seen_wl = set()
    from .base import static_callees
    callers = {}
    for f_ in ctx.p.iter_functions():
        if not f_.is_lambda:
            for node_, g_ in static_callees(ctx.p, f_):
                callers.setdefault(g_.qualname.split(":")[-1].split("#")[0], []).append(f_.qualname.split(":")[-1].split("#")[0])
    for short, base, attr, site in reads:
        ok = any(short == w or short.startswith(w + ".") for w in RD_WHITELIST)
        if not ok and short.split(".")[-1].startswith("_") and not short.split(".")[-1].startswith("__"):
            cs = callers.get(short, [])        # private helper extracted from a whitelisted site
            ok = bool(cs) and all(any(c_ == w or c_.startswith(w + ".") for w in RD_WHITELIST) for c_ in cs)
        if ok:
            seen_wl.add(short)
        rep.oblige("C08.RD", f"{short}:{base}.{attr}", ok, "" if ok else "not whitelisted")
        if not ok:
            fn, stmt = ctx.p.stmt_at(site)
            rep.violate(Violation("C08.RD", f"C08.RD|{short}|{base}.{attr}",
                                  f"{short} reads the raw class-level `{base}.{attr}`; instance state must come from Attr.lookup_default_value(type(self)) (evaluates factories, honours subclass overrides, copies): `{stmt}`",
                                  site, short, [], short))
    if len(reads) < 5:
        raise AnalysisError(f"C08.RD: only {len(reads)} default reads found (floor 5)")


    peer_rule(ctx, rep)

    # ---- OWNER: the owner's stored default is used only for the owning class itself
    rep.rules["C08.OWNER"] = "lookup_default_value: Attr.default_value is returned only when the class reached in the MRO walk is the owner"
    r0 = [r for r in pmap(fr_worker, ["lookup_default_value"])][0]
    bad_owner = []
    for row in r0["rows"]:
        if row["kind"] != "ok" or not row.get("default_value_called"):
            continue
        if not any(d.startswith("is:") and "owner" in d and d.endswith("=True") for d in row["dec"]):
            bad_owner.append("; ".join(row["dec"][-3:]))
    rep.oblige("C08.OWNER", "Attr.lookup_default_value", not bad_owner, "; ".join(bad_owner[:1]))
    for b in sorted(set(bad_owner))[:1]:
        rep.violate(Violation("C08.OWNER", "C08.OWNER|default_value-for-non-owner", f"lookup_default_value returns the owner's stored default for a class that is not the owner ({b}): a nearer re-default along the MRO is ignored",
                              "", "Attr.lookup_default_value"))

    # ---- MRO (must-pass-through)
    rep.rules["C08.MRO"] = "lookup_default_value: every return lies inside or after the loop over the instance class's MRO (subclass overrides are always consulted)"
    attr_ci = ctx.p.find_class("Attr")
    c, m = ctx.p.lookup_method(attr_ci, "lookup_default_value")
    fn = m[0].node
    loops = [s for s in fn.body if isinstance(s, ast.For) and "mro" in ast.unparse(s.iter)]
    if not loops:
        rep.oblige("C08.MRO", "Attr.lookup_default_value", False, "no top-level loop over spec_cls.mro()")
        rep.violate(Violation("C08.MRO", "C08.MRO|noloop", "lookup_default_value no longer walks the MRO of the instance's class",
                              f"{m[0].module.relpath}:{fn.lineno}", "Attr.lookup_default_value"))
    else:
        loop = loops[0]
        early = []
        for s in fn.body:
            if s is loop:
                break
            for n in ast.walk(s):
                if isinstance(n, ast.Return):
                    early.append(n)
        rep.oblige("C08.MRO", "Attr.lookup_default_value", not early,
                   "" if not early else f"return before the MRO walk at line {early[0].lineno}")
        for n in early:
            rep.violate(Violation("C08.MRO", f"C08.MRO|early-return|{ast.unparse(n)}",
                                  f"lookup_default_value returns `{ast.unparse(n)}` before walking the MRO: a default supplied by a (plain) subclass is never found / copied",
                                  f"{m[0].module.relpath}:{n.lineno}", "Attr.lookup_default_value"))

    # ---- FORCE (who may force)
    rep.rules["C08.FORCE"] = "force=<true> (bypasses default re-install and the frozen guard) is produced only by the constructor and the default re-install itself"
    allowed = ("InitMethod.init", "DelAttrMethod.build_method.<locals>.__delattr__")
    nforce = 0
    for fi in ctx.p.iter_functions():
        if fi.is_lambda:
            continue
        short = fi.qualname.split(":")[-1].split("#")[0]
        own_params = {a.arg for a in fi.node.args.args + fi.node.args.kwonlyargs}
        for node in walk_own(fi.node):
            if not isinstance(node, ast.Call):
                continue
            for kw in node.keywords:
                if kw.arg != "force":
                    continue
                if isinstance(kw.value, ast.Constant) and kw.value.value is False:
                    continue
                if isinstance(kw.value, ast.Name) and kw.value.id == "force" and "force" in own_params:
                    continue   # plain forwarding of the caller's flag
                nforce += 1
                from .base import site_allowed
                ok = site_allowed(ctx, short, lambda s_: s_ in allowed)
                rep.oblige("C08.FORCE", f"{short}:{ast.unparse(node.func)}", ok)
                if not ok:
                    site = f"{fi.module.relpath}:{node.lineno}"
                    rep.violate(Violation("C08.FORCE", f"C08.FORCE|{short}|{ast.unparse(node.func)}",
                                          f"{short} passes force={ast.unparse(kw.value)} to {ast.unparse(node.func)}: a forced delete/assign skips the default re-install (and the frozen guard), so the attribute falls back to the shared class-level object",
                                          site, short))
    if nforce < 3:
        raise AnalysisError(f"C08.FORCE: only {nforce} force producers found (floor 3)")


def check(ctx, rep):
    from . import metarules, shared
    _check_main(ctx, rep)
    from . import metarules, r5rules
    r5rules.nearest_stop(ctx, rep, "C08.MRO")
    r5rules.setattr_rules(ctx, rep, "C08.DUNDER", ("forward", "default"))
    r5rules.mutate_attr_writes(ctx, rep, "C08.WRITE")
    r5rules.invalidate_no_force(ctx, rep, "C08.INV")
    metarules.inherited_rebuild(ctx, rep, "C08.META")
    metarules.attr_spec_writers(ctx, rep, "C08.SPEC")
    shared.unused_params(ctx, rep, "C08.PARAM", ["spec_classes.types.attr"])
    from .c05 import resetall_rule
    resetall_rule(ctx, rep, "C08.RESETALL")
    metarules.rebuild_options(ctx, rep, "C08.META")
    from .c01 import w_rule
    w_rule(ctx, rep, "C08.COW", lambda h, t: h.family in ("sequence", "mapping", "set"))
    from .c02 import dc_rule
    dc_rule(ctx, rep, "C08.DC")
