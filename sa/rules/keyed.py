"""Shared machinery for KeyedList / KeyedSet rules: interpret a method of the class (own or inherited
mixin parsed from the interpreter's _collections_abc.py) on a symbolic receiver."""
from __future__ import annotations

from ..runs import run_function
from ..values import ARG, CLS, FRESH, IMM, RECV, Const, Event, Sym, vrepr
from .base import get_ctx

STORES = ("self/._list", "self/._dict")
FIELDS = {"_list", "_dict", "_key", "_type", "enforce_item_equivalence"}


def is_store(t):
    return t in STORES or t.startswith("self/._list/") or t.startswith("self/._dict/")


def order_reducer(trace, ev):
    """Keeps the order of store writes and of everything that can fail."""
    k = ev[0]
    if k == "W" and is_store(ev[2]):
        n = Event(("W", ev[1], ev[2], ev[4], ev[5], ev[9]))
    elif k in ("R", "UR", "RR"):
        n = Event((k, ev[1], ev[-1]))
    elif k == "MR":
        n = Event(("MR", ev[1], ev[-1]))
    elif k == "U":
        n = Event(("U", ev[1], ev[-1]))
    else:
        return trace
    return trace + (n,)


order_reducer.is_reducer = True


def run_method(cls_name, meth, args, kwargs=None, facts=None, reducer=order_reducer, loop_unroll=2, configure=None,
               user_may_raise=True):
    ctx = get_ctx()
    ci = ctx.p.find_class(cls_name)
    c, m = ctx.p.lookup_method(ci, meth)
    if not isinstance(m, list):
        return None, None, None
    selfv = Sym(("self",), {RECV}, tags={"nonsentinel", "exactclass"})

    def conf(cfg):
        cfg.sym_classes[("self",)] = ci
        cfg.sym_method_filter = lambda c_, name: name not in FIELDS
        cfg.event_filter = reducer
        cfg.loop_unroll = loop_unroll
        cfg.user_may_raise = user_may_raise
        cfg.fact_defaults.clear()
        if facts:
            cfg.fact_defaults.append(lambda k: facts(k))
        if configure:
            configure(cfg)
    it, outs = run_function(ctx.p, ctx.H, m[0], [selfv] + list(args), kwargs or {}, configure=conf)
    return it, outs, c


def int_index_facts(is_int):
    def f(k):
        if k[0] == "isinstance" and k[1] == ("index_or_key",):
            if k[2] == "builtins.slice":
                return False
            if k[2] == "builtins.int":
                return is_int
        return None
    return f
