"""C10 — equality, copying and repr are coherent and total (structural clauses; reflexivity/symmetry/
transitivity over values and the repr text are NOT decided).

C10.ALL  __eq__ never concludes equality before every compare-enabled attribute was compared: inside
         the loop over the attribute specs every `return` yields False; every path that returns True
         carries, for each visited compare-enabled attribute, an equality verdict for that pair
C10.MISS incompatible classes -> False (before the loop); attribute reads use getattr(x, a, MISSING)
C10.REPR repr reads every attribute with the three-argument getattr; object_repr tests `obj is self`
         before any recursion; attributes come from attrs.items() filtered by Attr.repr
C10.DC   __deepcopy__ carries every __dict__ entry (decision table shared with C02.DC)
"""
from __future__ import annotations

import ast

from ..model import AnalysisError
from ..report import Report, Violation
from ..runs import run_function
from ..scenarios import core_impl, recv_sym
from ..values import ARG, CLS, FRESH, IMM, RECV, Const, Sym, vrepr
from .base import get_ctx, pmap, walk_own

META = {"assumptions": ["== on attribute values is the values' own business"], "trusted": ["sa abstract interpreter", "stdlib ast"]}


def eq_worker(_):
    ctx = get_ctx()
    fi = core_impl(ctx.H, "eq").impl
    selfv = recv_sym()
    other = Sym(("other",), {ARG}, tags={"nonsentinel"})

    def conf(cfg):
        cfg.record_decisions = True
        cfg.loop_unroll = 1
        cfg.user_may_raise = False
    it, outs = run_function(ctx.p, ctx.H, fi, [selfv, other], {}, configure=conf)
    rows = []
    for o in outs:
        dec = [(k, v) for k, v in o.state.decisions]
        rows.append({"kind": o.kind, "ret": o.value.value if o.kind == "ok" and isinstance(o.value, Const) else vrepr(o.value),
                     "dec": [(repr(k), v) for k, v in dec]})
    return {"rows": rows, "functions": sorted(it.functions_entered)}


def _check_main(ctx, rep: Report):
    eq = core_impl(ctx.H, "eq").impl
    site0 = f"{eq.module.relpath}:{eq.node.lineno}"
    # ---- ALL (AST polarity)
    rep.rules["C10.ALL"] = "forall-loop polarity of __eq__ + per-path equality verdicts"
    loops = [n for n in walk_own(eq.node) if isinstance(n, ast.For)]
    if not loops:
        raise AnalysisError("C10.ALL: __eq__ has no loop over the attribute specs (rule needs re-validation)")
    loop = loops[0]
    bad = []
    for n in ast.walk(loop):
        if isinstance(n, ast.Return):
            if not (isinstance(n.value, ast.Constant) and n.value.value is False):
                bad.append((n.lineno, f"`{ast.unparse(n)}` inside the comparison loop ends the comparison at that attribute: later attributes are ignored"))
    after = eq.node.body[eq.node.body.index(loop) + 1:] if loop in eq.node.body else []
    if not any(isinstance(s, ast.Return) and isinstance(s.value, ast.Constant) and s.value.value is True for s in after):
        bad.append((loop.lineno, "no `return True` after the loop"))
    rep.oblige("C10.ALL", "EqMethod.eq[polarity]", not bad, "; ".join(b[1] for b in bad))
    for ln, b in bad:
        rep.violate(Violation("C10.ALL", f"C10.ALL|polarity|{b[:60]}", f"EqMethod.eq: {b}", f"{eq.module.relpath}:{ln}", "EqMethod.eq"))
    # ---- ALL (paths)
    r = pmap(eq_worker, [0])[0]
    rep.functions |= set(r["functions"])
    rep.evaluations += len(r["rows"])
    bad = []
    n_true = 0
    for row in r["rows"]:
        d = row["dec"]
        rep.nontrivial.add((row["ret"], tuple(d)))
        isinst = [v for k, v in d if k.startswith("('isinstance', ('other',)")]
        if isinst and isinst[0] is False:
            if row["ret"] is not False:
                bad.append(("MISS", f"operands of incompatible classes compare as {row['ret']!r} instead of False"))
            continue
        if row["ret"] is True:
            n_true += 1
            compared = [v for k, v in d if "'.compare'" in k]
            if compared and compared[0] is True:
                verdict = [v for k, v in d if (k.startswith("('eq'") and v is True) or (k.startswith("('is'") and "__func__" in k and v is True)]
                both_missing = [v for k, v in d if k.startswith("('hasattr'")] == [False, False]
                if not verdict and not both_missing:
                    bad.append(("ALL", "a path returns True although a compare-enabled attribute was visited without an equality verdict"))
        if row["ret"] not in (True, False) and row["kind"] == "ok":
            bad.append(("ALL", f"__eq__ returns {row['ret']!r} (neither True nor False)"))
    if n_true == 0:
        bad.append(("ALL", "no path returns True"))
    rep.oblige("C10.ALL", "EqMethod.eq[paths]", not [b for b in bad if b[0] == "ALL"], f"{len(r['rows'])} paths")
    rep.oblige("C10.MISS", "EqMethod.eq[class test]", not [b for b in bad if b[0] == "MISS"])
    rep.sample({"entry": "EqMethod.eq", "rows": r["rows"][:3]})
    for kind, b in sorted(set(bad)):
        rep.violate(Violation(f"C10.{kind}", f"C10.{kind}|{b[:60]}", f"EqMethod.eq: {b}", site0, "EqMethod.eq"))

    # ---- MISS / REPR getattr arity
    rep.rules["C10.MISS"] = "three-argument getattr with MISSING in __eq__ and repr"
    for name in ("eq", "repr"):
        fi = core_impl(ctx.H, name).impl
        n_get = 0
        for n in ast.walk(fi.node):
            if isinstance(n, ast.Call) and ast.unparse(n.func) == "getattr" and n.args and ast.unparse(n.args[0]) in ("self", "other"):
                n_get += 1
                ok = len(n.args) == 3 and ast.unparse(n.args[2]) == "MISSING"
                rule = "C10.MISS" if name == "eq" else "C10.REPR"
                rep.oblige(rule, f"{name}:{ast.unparse(n)[:40]}", ok)
                if not ok:
                    rep.violate(Violation(rule, f"{rule}|getattr|{ast.unparse(n)}",
                                          f"{fi.qualname.split(':')[-1]}: `{ast.unparse(n)}` raises AttributeError for an attribute that has no value (missing must read as MISSING)",
                                          f"{fi.module.relpath}:{n.lineno}", fi.qualname.split(":")[-1]))
        if n_get < 2:
            raise AnalysisError(f"C10: only {n_get} attribute reads found in {name}")

    # ---- REPR
    rep.rules["C10.REPR"] = "cycle test first in object_repr; attribute list from attrs.items() filtered by .repr"
    rp = core_impl(ctx.H, "repr").impl
    inner = [n for n in ast.walk(rp.node) if isinstance(n, ast.FunctionDef) and n.name == "object_repr"]
    bad = []
    if not inner:
        raise AnalysisError("C10.REPR: object_repr not found")
    first = inner[0].body[0]
    if not (isinstance(first, ast.If) and ast.unparse(first.test).replace(" ", "") in ("objisself", "selfisobj")
            and isinstance(first.body[0], ast.Return) and isinstance(first.body[0].value, ast.Constant)):
        bad.append("object_repr does not test `obj is self` before recursing: a self-referential instance recurses without bound")
    src = ast.unparse(rp.node)
    if "attrs.items()" not in src or "attr_spec.repr" not in src:
        bad.append("the attribute list is no longer `attrs.items()` filtered by Attr.repr")
    rep.oblige("C10.REPR", "ReprMethod.repr", not bad, "; ".join(bad))
    for b in bad:
        rep.violate(Violation("C10.REPR", f"C10.REPR|{b[:50]}", f"ReprMethod.repr: {b}", f"{rp.module.relpath}:{rp.node.lineno}", "ReprMethod.repr"))

    # ---- DC
    rep.rules["C10.DC"] = "see C02.DC"
    from .c02 import dc_worker
    r = pmap(dc_worker, [0])[0]
    dropped = []
    for row in r["rows"]:
        d = row["dec"]
        if row["kind"] == "ok" and not d.get("class_do_not_copy") and not row["stores"] \
                and (row.get("entered") or any(k in d for k in ("attr_do_not_copy", "ismethod", "attr_spec_found"))):
            dropped.append(str(d))
    rep.oblige("C10.DC", "DeepCopyMethod.deepcopy", not dropped)
    rep.evaluations += len(r["rows"])
    for dd in dropped[:1]:
        rep.violate(Violation("C10.DC", "C10.DC|dropped", f"__deepcopy__ drops a __dict__ entry from the copy (decisions {dd}): deepcopy(x) != x", "", "DeepCopyMethod.deepcopy"))


    # ---- RECON: re-constructing an instance from its own attribute values gives an equal instance - the constructor
    # must not drop falsy keyword values / defaults (shared with C09.DEF)
    rep.rules["C10.RECON"] = "the constructor tests presence of keyword values / defaults by identity with MISSING, never by truthiness"
    from .c09 import init_worker
    bad = []
    for role in ("own", "parent"):
        r = init_worker(role)
        for tok, site in r["truth"]:
            if "lookup_default_value" in tok or tok.startswith("kwargs/"):
                fn, stmt = ctx.p.stmt_at(site)
                bad.append((stmt, tok.split("/")[-1], site))
    rep.oblige("C10.RECON", "InitMethod.init", not bad, str(bad[:1]))
    for stmt, what, site in sorted(set(bad))[:2]:
        rep.violate(Violation("C10.RECON", f"C10.RECON|{stmt[:60]}", f"InitMethod.init: `{stmt}` tests the truthiness of a constructor value/default: falsy attribute values (0, '', [], None, False) are dropped, so Cls(**values_of(x)) != x",
                              site, "InitMethod.init"))


def check(ctx, rep):
    from . import keyedrules, metarules, shared
    _check_main(ctx, rep)
    from . import metarules, r5rules
    r5rules.repr_order(ctx, rep, "C10.REPR")
    r5rules.refresh_rules(ctx, rep, "C10.REFRESH")
    keyedrules.order_bearing(ctx, rep, "C10.CONT")
    keyedrules.keyedset_eq(ctx, rep, "C10.CONTSET")
    metarules.deepcopy_memo(ctx, rep, "C10.DC")
    metarules.field_conversion(ctx, rep, "C10.FIELD")
    shared.borrow(ctx, rep, "c20", {"C20.BAL": "C10.MODBAL", "C20.INV": "C10.MODINV"})    # deepcopy(x) of values holding modules rests on the balanced dispatch-table patch
    shared.borrow(ctx, rep, "c18", {"C18.P": "C10.ALIASPATH"})                          # repr / == read alias attributes: a missing target must read as missing, not raise
