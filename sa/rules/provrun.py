"""Shared worker: interpret one helper under an assumption environment and return
picklable path summaries (events kept by a reducer, return value, immutable tokens)."""
from __future__ import annotations

import ast as _ast

from ..runs import describe_path, run_helper
from ..values import FRESH, Event, Sym, vrepr
from .base import get_ctx, immutable_reprs

FAMILIES_FOR_SCALAR = (None, "sequence", "mapping", "set")


def keyed_tasks(ctx):
    """Element helpers of list / set attributes whose container is a KeyedList / KeyedSet."""
    return [(hid, "given", None, "keyed") for hid, h in ctx.helpers.items() if h.family in ("sequence", "set")]


def helper_tasks(ctx, shapes=("given", "default"), families=True, all_families=None):
    out = []
    allf = ctx.thorough if all_families is None else all_families
    for hid, h in ctx.helpers.items():
        hshapes = list(shapes)
        if "given" in hshapes and h.params()["varkw"]:
            hshapes.append("kwonly")      # defaults omitted, **keywords supplied
        for shape in hshapes:
            if h.family == "scalar" and families:
                direct = any(isinstance(n, _ast.Name) and n.id == "prepare_attr_value"
                             for n in _ast.walk(h.impl.node))
                for fam in FAMILIES_FOR_SCALAR:
                    if fam is None or direct or allf:
                        out.append((hid, shape, fam))
            else:
                out.append((hid, shape, None))
    return out


def set_family(cfg, ctx, fam):
    """For scalar helpers on a collection-typed attribute, resolve get_collection_mutator."""
    if fam is None:
        return
    from ..scenarios import MUTATOR_OF
    from ..values import ClassV, PartialO, Ref
    mc = ctx.p.find_class(MUTATOR_OF[fam])

    def hook(interp, st, objv, attr, site):
        if isinstance(objv, Sym) and objv.tok == ("attr_spec",) and attr == "get_collection_mutator":
            return Ref(st.alloc("partial:get_collection_mutator", PartialO(ClassV(mc), (objv,), {})))
        return None
    cfg.attr_hooks.insert(0, hook)


KEYED_FIELDS = {"_list", "_dict", "_key", "_type", "enforce_item_equivalence"}


def set_collection_kind(cfg, ctx, family, kind):
    """kind 'keyed': the attribute's container is the in-repo KeyedList / KeyedSet, so container
    operations are interpreted through its own (and inherited mixin) bodies instead of list/set primitives."""
    if kind != "keyed" or family not in ("sequence", "set"):
        return
    ci = ctx.p.find_class("KeyedList" if family == "sequence" else "KeyedSet")

    def fn(tok):
        t = tuple(x for x in tok if x not in ("copy", "shallowcopy"))
        if len(t) == 2 and t[0] == "self" and str(t[1]).startswith(".{"):
            return ci
        return None
    cfg.sym_class_fns.append(fn)
    prev = cfg.sym_method_filter
    cfg.sym_method_filter = lambda c_, name: (name not in KEYED_FIELDS) if c_ is ci else prev(c_, name)


def set_reducer(keep):
    """Trace reducer keeping the *set* of events selected (and normalised) by keep(ev) -> ev|None."""
    def red(trace, ev):
        n = keep(ev)
        if n is None:
            return trace
        n = Event(n)
        if n in trace:
            return trace
        return tuple(sorted(trace + (n,), key=repr))
    red.is_reducer = True
    return red


def run(task, reducer, *, inplace=False, frozen=False, do_not_copy=False, initializing=False,
        attr_do_not_copy=None, deepcopy_mode="fresh", setattr_mode="event", loop_unroll=1,
        extra_facts=None, configure=None, if_=True, alias=False):
    kind = None
    if len(task) == 4:
        hid, shape, fam, kind = task
        task = (hid, shape, fam)
    hid, shape, fam = task
    ctx = get_ctx()
    h = ctx.helpers[hid]

    def conf(cfg):
        cfg.event_filter = reducer
        cfg.loop_unroll = loop_unroll
        cfg.guard_pred = lambda k: k[0] == "immutable"    # never merged away: rules rely on it
        # an opaque callback may return (part of) its argument: on copy-on-write routes the library must not write into
        # such a result without copying it (on in-place routes the caller asked for exactly that)
        cfg.callback_may_alias = alias and not inplace
        set_family(cfg, ctx, fam)
        set_collection_kind(cfg, ctx, h.family, kind)
        if configure:
            configure(cfg)
    facts = dict(extra_facts or {})
    if h.family == "scalar":
        facts[("truthy", ("attr_spec", ".is_collection"))] = fam is not None
    # extra tasks (a scalar helper other than with_<attr> interpreted over a collection-typed attribute) are
    # best effort: when one exceeds the state budget it is recorded as unexplored instead of failing the run
    extra_task = h.family == "scalar" and fam is not None and not hid.endswith(".with_attr")     # with_<attr> is the funnel they all reach
    from ..state import Budget
    try:
        it, outs = run_helper(ctx.p, ctx.H, h, inplace=inplace, if_=if_, shape=shape, frozen=frozen,
                              do_not_copy=do_not_copy, initializing=initializing,
                              attr_do_not_copy=attr_do_not_copy, deepcopy_mode=deepcopy_mode,
                              setattr_mode=setattr_mode, configure=conf, extra_facts=facts, cache=False)
    except Budget as e:
        if not extra_task:
            raise
        return {"task": task, "entry": f"{hid}[{shape},{fam}{',' + kind if kind else ''}]", "paths": [], "functions": [], "call_sites": 0,
                "unclassified": [f"UNEXPLORED (state budget): {hid}[{shape},{fam}] - {e}"]}
    paths = []
    for o in outs:
        v = o.value
        paths.append({
            "kind": o.kind,
            "value": vrepr(v) if v is not None else None,
            "value_prov": sorted(v.prov) if isinstance(v, Sym) else [],
            "value_inner": sorted(v.inner) if isinstance(v, Sym) and v.inner is not None else [],
            "exc": (v.cls, v.origin) if o.kind == "exc" else None,
            "trace": [tuple(e) for e in o.state.trace],
            "imm": sorted(immutable_reprs(o.state.facts)),
            "desc": describe_path(o, 10),
            "notes": list(o.state.notes),
        })
    return {"task": task, "entry": f"{hid}[{shape},{fam}{',' + kind if kind else ''}]", "paths": paths,
            "functions": sorted(it.functions_entered), "call_sites": len(it.call_sites),
            "unclassified": sorted(it.unclassified)}


def absorb(rep, r):
    rep.entry_points.add(r["task"][0])
    rep.evaluations += len(r["paths"])
    rep.functions |= set(r["functions"])
    rep.extra["call_sites_n"] = rep.extra.get("call_sites_n", 0) + r["call_sites"]
    for u in r["unclassified"]:
        n = f"unclassified external call assumed pure: {u}"
        if n not in rep.notes:
            rep.notes.append(n)
    for p in r["paths"]:
        if p["trace"]:
            rep.nontrivial.add((r["entry"], p["kind"], tuple(p["trace"])))
    if r["paths"]:
        p = r["paths"][0]
        rep.sample({"entry": r["entry"], "outcome": p["kind"], "returns": p["value"], "events": p["desc"][:5]})
