"""C15 — the run-time type check accepts a value exactly when it conforms structurally.

check_type is a structural recursion over a finite set of annotation shapes: its body is partially
evaluated once per shape (abstract annotation with a concrete origin, symbolic arguments A0, A1;
symbolic value; recursive calls summarised as atoms REC(value, Ai)) and the residual decision
structure of every path is compared with the oracle for that shape.
C15.S  residual per shape (15 shapes)      C15.B  bounded(): validator table over all orderings
C15.M  ValidatedTypeMeta.__instancecheck__ / validated() wiring
"""
from __future__ import annotations

import ast
import itertools

from ..model import AnalysisError
from ..report import Report, Violation
from ..runs import run_function
from ..values import ARG, CLS, FRESH, IMM, RECV, Const, ExtV, Sym, TupleV, vrepr
from .base import get_ctx, pmap, walk_own

META = {"assumptions": ["isinstance / == on user classes and values are their own business", "recursive calls are correct by induction on the annotation depth"],
        "trusted": ["sa abstract interpreter (partial evaluation)", "stdlib ast"]}

T = Sym(("T",), {CLS})
A0, A1 = Sym(("A0",), {CLS}), Sym(("A1",), {CLS})
VALUE = Sym(("value",), {ARG})        # may be None (None is a value like any other for check_type)

SHAPES = {
    # name: (attr_type value, origin ExtV name | None, args, facts about T)
    "Any": (ExtV("typing.Any"), None, None, {}),
    "TypeVar": (T, None, None, {"typevar": True}),
    "float": (ExtV("builtins.float"), None, None, {}),
    "class": (ExtV("builtins.int"), None, None, {}),
    "Union": (T, "typing.Union", (A0, A1), {"typing_alias": True}),
    "X|Y": (T, None, (A0, A1), {"uniontype": True}),
    "Literal": (T, "typing.Literal", (A0, A1), {"typing_alias": True}),
    "List[A]": (T, "builtins.list", (A0,), {"typing_alias": True}),
    "list[A]": (T, "builtins.list", (A0,), {"types_alias": True}),
    "Set[A]": (T, "builtins.set", (A0,), {"typing_alias": True}),
    "Dict[K,V]": (T, "builtins.dict", (A0, A1), {"typing_alias": True}),
    "Tuple[A,...]": (T, "builtins.tuple", (A0, ExtV("builtins.Ellipsis")), {"typing_alias": True}),
    "Tuple[A0,A1]": (T, "builtins.tuple", (A0, A1), {"typing_alias": True}),
    "Type[A]": (T, "builtins.type", (A0,), {"typing_alias": True}),
    "Other[A]": (T, "collections.OrderedDict", (A0,), {"typing_alias": True}),
}


def shape_worker(name):
    ctx = get_ctx()
    attr_type, origin, args, tf = SHAPES[name]
    fi = ctx.p.find_function("check_type")

    def facts(k):
        r = repr(k)
        if k[0] == "isinstance" and k[1] == ("T",):
            if "TypeVar" in k[2]:
                return bool(tf.get("typevar"))
            if "UnionType" in k[2]:
                return bool(tf.get("uniontype"))
            if "_GenericAlias" in k[2]:
                return bool(tf.get("typing_alias"))
            if k[2].endswith("GenericAlias"):
                return bool(tf.get("types_alias"))
        if k[0] == "hasattr" and k[1] == ("T",) and k[2] == "__origin__":
            return origin is not None
        if k[0] == "is" and k[1] in (("T",), ("A0",), ("A1",)):
            return False
        return None

    def hook(interp, st, objv, attr, site):
        if isinstance(objv, Sym) and objv.tok == ("T",) and isinstance(attr, str):
            if attr == "__origin__" and origin:
                return ExtV(origin)
            if attr == "__args__" and args is not None:
                return TupleV(list(args))
        return None

    def stub_rec(interp, st, a, kw, frame, node):
        from ..common import Outcome
        aa = [x for x in a if not isinstance(x, tuple)]
        key = ("REC", vrepr(aa[0]), vrepr(aa[1]))
        return [Outcome("ok", s, Const(b)) for s, b in interp.decide(st, key)]

    def conf(cfg):
        cfg.fact_defaults.clear()
        cfg.fact_defaults.append(facts)
        cfg.attr_hooks.insert(0, hook)
        cfg.stubs["check_type"] = stub_rec
        cfg.record_decisions = True
        cfg.user_may_raise = False
        cfg.implicit_raises = False
    it, outs = run_function(ctx.p, ctx.H, fi, [VALUE, attr_type], {}, configure=conf)
    rows = []
    for o in outs:
        dec = [(k, v) for k, v in o.state.decisions]
        rows.append({"kind": o.kind, "ret": o.value.value if o.kind == "ok" and isinstance(o.value, Const) else (vrepr(o.value) if o.kind == "ok" else "raise:" + o.value.cls),
                     "dec": [(tuple(map(str, k)) if not isinstance(k, tuple) else tuple(str(x) if not isinstance(x, tuple) else "/".join(map(str, x)) for x in k), v) for k, v in dec]})
    return {"shape": name, "rows": rows, "functions": sorted(it.functions_entered)}


def _validate(shape, rows):
    """Compare the residual of each path with the oracle of the shape; returns list of problems."""
    bad = []
    if not rows:
        return ["no path"]
    for row in rows:
        ret, dec = row["ret"], row["dec"]
        if row["kind"] != "ok":
            bad.append(f"raises ({ret}) instead of returning a verdict")
            continue
        if ret not in (True, False):
            bad.append(f"returns {ret!r} (not a boolean verdict)")
            continue
        inst = [v for k, v in dec if k[0] == "isinstance" and k[1] == "value"]
        inst_t = [k[2] for k, v in dec if k[0] == "isinstance" and k[1] == "value"]
        recs = [(k[1], k[2], v) for k, v in dec if k[0] == "REC"]
        eqs = [v for k, v in dec if k[0] == "eq"]
        lens = [v for k, v in dec if k[0] in ("eq", "cmp") and "len" in "".join(k)]
        sub = [v for k, v in dec if k[0] == "pred" and "issubclass" in k[1]]
        if shape in ("Any", "TypeVar"):
            if ret is not True or recs or inst:
                bad.append("must accept every value unconditionally")
        elif shape == "float":
            if not inst or "numbers.Real" not in inst_t[0] or ret != inst[0]:
                bad.append(f"float must accept exactly numbers.Real instances (tested {inst_t}, verdict {ret})")
        elif shape == "class":
            if not inst or "builtins.int" not in inst_t[0] or ret != inst[0] or recs:
                bad.append(f"plain class must be decided by isinstance(value, cls) alone (tested {inst_t}, verdict {ret})")
        elif shape in ("Union", "X|Y"):
            want = any(v for _, t, v in recs)
            types_seen = [t for _, t, _ in recs]
            if any(vl != "value" for vl, _, _ in recs) or ret != want or (ret is False and set(types_seen) != {"A0", "A1"}):
                bad.append(f"union must accept iff some alternative accepts the value (alternatives consulted {types_seen}, verdict {ret})")
            if inst:
                bad.append("union verdict must not depend on isinstance(value, ...)")
        elif shape == "Literal":
            want = any(eqs)
            if ret != want or recs or (ret is False and len(eqs) != 2):
                bad.append(f"Literal must accept iff the value equals one of the choices (comparisons {eqs}, verdict {ret})")
        elif shape in ("List[A]", "list[A]", "Set[A]"):
            origin = "builtins.list" if "ist" in shape else "builtins.set"
            if not inst or origin not in inst_t[0]:
                bad.append(f"container membership isinstance(value, {origin}) is not tested first (tested {inst_t})")
            elif inst[0] is False:
                if ret is not False:
                    bad.append("a value of the wrong container type is accepted")
            else:
                if any(t != "A0" or not vl.startswith("value/") for vl, t, _ in recs):
                    bad.append(f"elements must be checked against the element type A0 (got {[(a_, t) for a_, t, _ in recs]})")
                if ret != all(v for _, _, v in recs):
                    bad.append(f"verdict {ret} although element checks were {[v for _, _, v in recs]}")
                import re as _re
                mentioned = {m_ for k, _ in dec for part in k
                             for m_ in _re.findall(r"value/\[\]/(\d+)", str(part)) + _re.findall(r"'value', '\[\]', (\d+)", str(part))}
                checked = {m_ for vl, _, _ in recs for m_ in _re.findall(r"value/\[\]/(\d+)", vl)}
                if ret is True and mentioned - checked:
                    bad.append(f"element(s) #{sorted(mentioned - checked)} are accepted without being checked against the element type")
        elif shape == "Dict[K,V]":
            if not inst or "builtins.dict" not in inst_t[0]:
                bad.append("isinstance(value, dict) is not tested first")
            elif inst[0] is False:
                if ret is not False:
                    bad.append("a non-dict is accepted")
            else:
                for vl, t, v in recs:
                    if "/key/" in vl and t != "A0":
                        bad.append(f"keys are checked against {t} instead of the key type")
                    if "/val/" in vl and t != "A1":
                        bad.append(f"values are checked against {t} instead of the value type")
                if ret != all(v for _, _, v in recs):
                    bad.append(f"verdict {ret} although entry checks were {[v for _, _, v in recs]}")
                if ret is True and recs and not ({"A0", "A1"} <= {t for _, t, _ in recs}):
                    bad.append("an entry is accepted without checking both its key and its value")
        elif shape == "Tuple[A,...]":
            if inst and inst[0] is False:
                if ret is not False:
                    bad.append("a non-tuple is accepted")
            elif any(t != "A0" for _, t, _ in recs) or ret != all(v for _, _, v in recs):
                bad.append(f"variadic tuple: every element against A0 (got {[(t, v) for _, t, v in recs]}, verdict {ret})")
        elif shape == "Tuple[A0,A1]":
            if inst and inst[0] is False:
                if ret is not False:
                    bad.append("a non-tuple is accepted")
            else:
                lenok = [v for k, v in dec if k[0] == "eq" and "len" in k[1] + k[2]]
                if not lenok:
                    bad.append("fixed-length tuple: the length is not compared with the number of element types")
                elif lenok[0] is False:
                    if ret is not False:
                        bad.append("a tuple of the wrong length is accepted")
                else:
                    for vl, t, v in recs:
                        if not t.startswith("tupleitem/"):
                            bad.append(f"element {vl} is checked against {t} rather than the type at its own position")
                    if ret != all(v for _, _, v in recs):
                        bad.append(f"verdict {ret} although element checks were {[v for _, _, v in recs]}")
        elif shape == "Type[A]":
            if not inst or "builtins.type" not in inst_t[0]:
                bad.append("Type[A]: isinstance(value, type) is not established before issubclass (issubclass raises on non-classes)")
            elif inst[0] is False:
                if ret is not False or sub:
                    bad.append("a non-class value reaches issubclass / is accepted")
            elif not sub or ret != sub[0]:
                bad.append(f"Type[A] must accept iff issubclass(value, A) (verdict {ret}, subclass tests {sub})")
        elif shape == "Other[A]":
            if not inst or ret != inst[0]:
                bad.append("other generic alias must be decided by isinstance(value, origin)")
    return sorted(set(bad))


# ------------------------------------------------------------------ bounded
def bounded_worker(combo):
    """combo: dict bound -> None | 'lt' | 'eq' | 'gt' (ordering of obj relative to the bound) ; plus truthy flags"""
    ctx = get_ctx()
    fi = ctx.p.find_function("bounded.<locals>.validator")
    closure = {"numeric_type": Sym(("numeric_type",), {CLS})}
    for b, o in combo["ord"].items():
        closure[b] = Const(None) if o is None else Sym((b,), {ARG}, tags={"nonsentinel"})

    def facts(k):
        if k[0] == "cmp":
            op, a, b = k[1], k[2], k[3]
            for name, o in combo["ord"].items():
                if o is None:
                    continue
                if f"('{name}',)" in b and "'obj'" in a:
                    return {"<": o == "lt", "<=": o in ("lt", "eq"), ">": o == "gt", ">=": o in ("gt", "eq")}[op]
                if f"('{name}',)" in a and "'obj'" in b:
                    return {"<": o == "gt", "<=": o in ("gt", "eq"), ">": o == "lt", ">=": o in ("lt", "eq")}[op]
        if k[0] == "check":
            return True
        if k[0] == "truthy" and len(k[1]) == 1 and k[1][0] in combo["ord"]:
            return combo["truthy"]      # a zero bound is falsy
        return None

    def conf(cfg):
        cfg.fact_defaults.clear()
        cfg.fact_defaults.append(facts)
        cfg.user_may_raise = False
    it, outs = run_function(ctx.p, ctx.H, fi, [Sym(("obj",), {ARG}, tags={"nonsentinel"})], {}, closure=closure, configure=conf)
    res = sorted({(o.kind, o.value.value if o.kind == "ok" and isinstance(o.value, Const) else vrepr(o.value)) for o in outs}, key=repr)
    return {"combo": combo, "res": res}


def shapes_rule(ctx, rep, rule="C15.S"):
    rep.rules[rule] = "residual decision structure of check_type per annotation shape vs oracle; non-trivial = distinct residual paths"
    for r in pmap(shape_worker, list(SHAPES)):
        rep.functions |= set(r["functions"])
        rep.evaluations += len(r["rows"])
        for row in r["rows"]:
            rep.nontrivial.add((r["shape"], repr(row["ret"]), tuple(map(repr, row["dec"]))))
        bad = _validate(r["shape"], r["rows"])
        rep.oblige(rule, r["shape"], not bad, "; ".join(bad[:2]) or f"{len(r['rows'])} residual paths")
        rep.sample({"shape": r["shape"], "paths": [[repr(row["ret"]), [f"{'/'.join(k)}={v}" for k, v in row["dec"][-4:]]] for row in r["rows"][:3]]})
        for b in bad:
            rep.violate(Violation(rule, f"{rule}|{r['shape']}|{b[:80]}", f"check_type on {r['shape']}: {b}", "", "check_type"))



def _check_main(ctx, rep: Report):
    rep.extra["exhaustive"] = True
    shapes_rule(ctx, rep)

    # ---- B
    rep.rules["C15.B"] = "bounded(): validator verdict for every combination of (bound absent | obj <,==,> bound) x 4 bounds x (bound truthy/falsy): exhaustive"
    combos = []
    for vals in itertools.product([None, "lt", "eq", "gt"], repeat=4):
        ordd = dict(zip(("ge", "gt", "le", "lt"), vals))
        # value relations must be consistent only per bound (bounds are independent symbols)
        for truthy in (True, False):
            combos.append({"ord": ordd, "truthy": truthy})
    # keep the table small but complete per bound: vary one or two bounds at a time
    combos = [c for c in combos if sum(v is not None for v in c["ord"].values()) <= 2]
    bad = []
    n = 0
    for r in pmap(bounded_worker, combos):
        n += 1
        o = r["combo"]["ord"]
        exp = True
        if o["ge"] is not None and o["ge"] == "lt":
            exp = False
        if o["gt"] is not None and o["gt"] in ("lt", "eq"):
            exp = False
        if o["le"] is not None and o["le"] == "gt":
            exp = False
        if o["lt"] is not None and o["lt"] in ("gt", "eq"):
            exp = False
        got = r["res"]
        rep.nontrivial.add((tuple(o.items()), r["combo"]["truthy"], tuple(got)))
        if got != [("ok", exp)]:
            which = ", ".join(f"obj {dict(lt='<', eq='==', gt='>')[v]} {k}" for k, v in o.items() if v)
            zero = "" if r["combo"]["truthy"] else " (bound is zero / falsy)"
            bad.append(f"{which or 'no bounds'}{zero}: expected {exp}, validator gives {got}")
    rep.evaluations += n
    rep.oblige("C15.B", "bounded.validator", not bad, "; ".join(bad[:2]) or f"{n} ordering combinations")
    for b in sorted(set(bad))[:4]:
        rep.violate(Violation("C15.B", f"C15.B|{b[:90]}", f"bounded(): {b}", "", "bounded.<locals>.validator"))

    # ---- M
    rep.rules["C15.M"] = "__instancecheck__ returns cls.validate(obj); validated() installs the validator as validate"
    ci = ctx.p.find_class("ValidatedTypeMeta")
    d = ci.methods.get("__instancecheck__")
    ok = bool(d) and ast.unparse(d[0].node.body[-1]) == "return cls.validate(obj)"
    rep.oblige("C15.M", "ValidatedTypeMeta.__instancecheck__", ok)
    if not ok:
        rep.violate(Violation("C15.M", "C15.M|instancecheck", "ValidatedTypeMeta.__instancecheck__ no longer returns cls.validate(obj) unchanged", "", "ValidatedTypeMeta.__instancecheck__"))
    v = ctx.p.find_function("validated")
    src = ast.unparse(v.node)
    ok = "'validate': validator" in src and "ValidatedType" in src
    rep.oblige("C15.M", "validated", ok)
    if not ok:
        rep.violate(Violation("C15.M", "C15.M|validated", "validated() no longer installs the validator as the class's `validate`", "", "validated"))


def check(ctx, rep):
    from . import metarules, shared
    _check_main(ctx, rep)
    metarules.metaclass_identity(ctx, rep, "C15.M")
    shared.unused_params(ctx, rep, "C15.PARAM", ["spec_classes.types.validated", "spec_classes.utils.type_checking"], floor=3)
    metarules.closure_captures_params(ctx, rep, "C15.B")
