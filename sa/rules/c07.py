"""C07 — frozen instances are immutable yet still evolvable by copy.

C07.G  guard first: with frozen=True (not initialising, not forced) no in-place route
       (__setattr__/__delattr__ closures, 19 helpers with _inplace=True) writes anything
       reachable from the receiver on any path - whether the path ends in FrozenInstanceError or not
C07.C  copy-on-write on a frozen instance (the in-repo __deepcopy__ is interpreted, not assumed):
       nothing reachable from the receiver is written; the funnel returns a fresh object
C07.T  copy-on-write helpers do not raise FrozenInstanceError on their own private copy
C07.W  initialisation window: the initialising flag and force=<true> are produced only by the
       constructor; the flag is set before the first attribute write and removed after __post_init__
"""
from __future__ import annotations

import ast

from ..model import AnalysisError
from ..report import Report, Violation
from ..runs import describe_path, run_function
from ..scenarios import core_impl, recv_sym
from ..values import ARG, CLS, FRESH, IMM, RECV, Const, Event, Sym, vrepr
from . import provrun
from .base import get_ctx, immutable_reprs, pmap, walk_own, wkey, is_imm

META = {
    "assumptions": ["user callbacks do not mutate library-visible state themselves",
                    "declared defaults conform to their annotations"],
    "trusted": ["sa abstract interpreter", "stdlib ast"],
}


def _keep_recv(ev):
    if ev[0] == "W" and RECV in ev[3]:
        return ("W", ev[1], ev[2], tuple(ev[3]), None, None, None, (), ev[8], ev[9])
    if ev[0] == "R" and ev[1] == "FrozenInstanceError":
        return ("R", ev[1], ev[2], ev[-1])
    return None


RED = provrun.set_reducer(_keep_recv)


def _unstub_invalidate(cfg):
    cfg.stubs.pop("invalidate_attrs", None)


def g_worker(task):
    ctx = get_ctx()
    r = provrun.run(task, RED, inplace=True, frozen=True, initializing=False, setattr_mode="inline")
    viols = []
    for p in r["paths"]:
        for e in p["trace"]:
            if e[0] == "W" and not is_imm(e[2], p["imm"]):
                viols.append({"key": wkey(ctx.p, "C07.G", e), "site": e[-1], "how": e[1], "target": e[2],
                              "path": p["desc"], "ends": p["kind"] + (":" + p["exc"][0] if p["exc"] else "")})
    r["viols"] = viols
    return r


def ct_worker(task):
    ctx = get_ctx()
    from ..state import Budget
    alias = "transform" in task[0].lower()          # callbacks that may hand back their argument
    try:
        r = provrun.run(task, RED, inplace=False, frozen=True, initializing=False, deepcopy_mode="inline",
                        setattr_mode="inline", configure=_unstub_invalidate, alias=alias)
    except Budget:
        if not alias:
            raise
        # the aliasing refinement multiplies states; fall back to the plain provenance run for this task
        r = provrun.run(task, RED, inplace=False, frozen=True, initializing=False, deepcopy_mode="inline",
                        setattr_mode="inline", configure=_unstub_invalidate, alias=False)
        r["alias_fallback"] = True
    viols, raises = [], []
    for p in r["paths"]:
        for e in p["trace"]:
            if e[0] == "W" and not is_imm(e[2], p["imm"]):
                viols.append({"key": wkey(ctx.p, "C07.C", e), "site": e[-1], "how": e[1], "target": e[2],
                              "path": p["desc"]})
        if p["kind"] == "exc" and p["exc"][0] == "FrozenInstanceError":
            vias = [e[2] for e in p["trace"] if e[0] == "R" and e[-1] == p["exc"][1]]
            raises.append({"site": p["exc"][1], "path": p["desc"],
                           "via": "invalidate_attrs" if any("invalidate_attrs" in v for v in vias) else "direct"})
    r["viols"] = viols
    r["raises"] = raises
    return r


def closure_worker(which):
    ctx = get_ctx()
    fi = core_impl(ctx.H, which).impl
    args = [recv_sym(), Sym(("attr",), {IMM})]
    if which == "__setattr__":
        args.append(Sym(("value",), {ARG}, tags={"nonsentinel"}))

    def conf(cfg):
        cfg.event_filter = RED
    it, outs = run_function(ctx.p, ctx.H, fi, args, {}, frozen=True, initializing=False, configure=conf)
    viols = []
    normal = 0
    for o in outs:
        imm = immutable_reprs(o.state.facts)
        ws = [e for e in o.state.trace if e[0] == "W" and e[2] not in imm]
        for e in ws:
            viols.append({"key": wkey(ctx.p, "C07.G", e), "site": e[-1], "how": e[1], "target": e[2],
                          "path": describe_path(o), "ends": o.kind})
        if o.kind == "ok":
            normal += 1
    return {"which": which, "viols": viols, "paths": len(outs), "normal": normal,
            "frozen_raises": sum(1 for o in outs if o.kind == "exc" and o.value.cls == "FrozenInstanceError"),
            "functions": sorted(it.functions_entered)}


def init_worker(_):
    ctx = get_ctx()
    fi = core_impl(ctx.H, "init").impl
    a, b = sorted([("self", ".__spec_class__", ".owner"), ("spec_cls",)])
    facts = {("is", a, ("tok", b)): True}

    def conf(cfg):
        cfg.loop_unroll = 1
        cfg.user_may_raise = False
        cfg.rawset_raises = False

        def keep(ev):
            if ev[0] == "W" and ev[1] in ("rawset", "rawdel"):
                return ("W", ev[1], ev[4] == "'__spec_class_initializing__'" or ev[4] == "__spec_class_initializing__")
            if ev[0] == "U" and ev[2] in ("post_init", "__init__"):
                return ("U", ev[2])
            return None

        def red(trace, ev):
            n = keep(ev)
            if n is None:
                return trace
            n = Event(n)
            if trace and trace[-1] == n:
                return trace
            return trace + (n,)
        red.is_reducer = True
        cfg.event_filter = red
    it, outs = run_function(ctx.p, ctx.H, fi, [Sym(("spec_cls",), {CLS}), recv_sym()],
                            {"**": Sym(("kwargs", "[]"), {ARG})}, frozen=True, initializing=False,
                            configure=conf, extra_facts=facts)
    rows = [{"kind": o.kind, "trace": [tuple(e) for e in o.state.trace]} for o in outs]
    return {"rows": rows, "functions": sorted(it.functions_entered)}


def _check_main(ctx, rep: Report):
    rep.envs.append({"frozen": True, "initializing": False, "force": False})
    # ---- G
    rep.rules["C07.G"] = "frozen, in-place: no write to receiver-reachable state on any path (non-trivial = path with such a write or a FrozenInstanceError)"
    for r in pmap(g_worker, provrun.helper_tasks(ctx, families=False)):
        provrun.absorb(rep, r)
        rep.oblige("C07.G", r["entry"], not r["viols"], f"{len(r['paths'])} paths")
        for v in r["viols"]:
            fn, stmt = ctx.p.stmt_at(v["site"])
            rep.violate(Violation("C07.G", v["key"], f"frozen instance is changed by an in-place call: {v['how']} on `{v['target']}` at `{stmt}` (path ends {v['ends']})",
                                  v["site"], fn, v["path"], r["entry"]))
    for r in pmap(closure_worker, ["__setattr__", "__delattr__"]):
        rep.functions |= set(r["functions"])
        rep.evaluations += r["paths"]
        ok = not r["viols"] and r["frozen_raises"] >= 1
        rep.oblige("C07.G", r["which"], ok, f"{r['paths']} paths, {r['frozen_raises']} raise FrozenInstanceError, {r['normal']} return normally")
        for v in r["viols"]:
            fn, stmt = ctx.p.stmt_at(v["site"])
            rep.violate(Violation("C07.G", v["key"], f"frozen instance changed by {r['which']}: {v['how']} at `{stmt}`",
                                  v["site"], fn, v["path"], r["which"]))
        if r["frozen_raises"] < 1:
            rep.violate(Violation("C07.G", f"C07.G|{r['which']}|never-raises", f"{r['which']} never raises FrozenInstanceError for a frozen class", "", r["which"]))

    # ---- C / T
    rep.rules["C07.C"] = "frozen, copy-on-write, in-repo __deepcopy__ interpreted: no write to receiver-reachable state"
    rep.rules["C07.T"] = "frozen, copy-on-write: no path ends in FrozenInstanceError"
    for r in pmap(ct_worker, provrun.helper_tasks(ctx, families=False)):
        provrun.absorb(rep, r)
        rep.oblige("C07.C", r["entry"], not r["viols"], f"{len(r['paths'])} paths")
        for v in r["viols"]:
            fn, stmt = ctx.p.stmt_at(v["site"])
            rep.violate(Violation("C07.C", v["key"], f"copy-on-write helper on a frozen instance writes the receiver itself: {v['how']} on `{v['target']}` at `{stmt}`",
                                  v["site"], fn, v["path"], r["entry"]))
        hid = r["task"][0]
        sites = sorted({x["site"] for x in r["raises"]})
        rep.oblige("C07.T", r["entry"], not sites, f"FrozenInstanceError raised at {sites}" if sites else "")
        for x in r["raises"]:
            fn, stmt = ctx.p.stmt_at(x["site"])
            rep.violate(Violation("C07.T", f"C07.T|{hid}|via:{x['via']}",
                                  f"{hid} (copy-on-write) raises FrozenInstanceError on a frozen class: its private copy is mutated through the guarded route `{stmt}` ({fn})",
                                  x["site"], fn, x["path"], r["entry"]))

    # ---- W
    rep.rules["C07.W"] = "__spec_class_initializing__ is produced only in InitMethod.init; set first, removed after post_init"
    producers = []
    for fi in ctx.p.iter_functions():
        if fi.is_lambda:
            continue
        short = fi.qualname.split(":")[-1].split("#")[0]
        for node in walk_own(fi.node):
            if isinstance(node, ast.Call) and node.args:
                f = ast.unparse(node.func)
                def _is_flag(a, fi=fi):
                    if isinstance(a, ast.Constant):
                        return a.value == "__spec_class_initializing__"
                    if isinstance(a, ast.Name):
                        r_ = ctx.p.resolve_global(fi.module, a.id)
                        return bool(r_) and r_[0] == "assign" and isinstance(r_[1][1], ast.Constant) and r_[1][1].value == "__spec_class_initializing__"
                    return False
                if (f.endswith("__setattr__") or f in ("setattr",)) and any(_is_flag(a) for a in node.args):
                    producers.append((short, f"{fi.module.relpath}:{node.lineno}"))
            if isinstance(node, (ast.Assign,)):
                for t in node.targets:
                    if isinstance(t, ast.Attribute) and t.attr == "__spec_class_initializing__":
                        producers.append((short, f"{fi.module.relpath}:{node.lineno}"))
    if not producers:
        raise AnalysisError("C07.W: no producer of __spec_class_initializing__ found")
    for short, site in producers:
        from .base import site_allowed
        ok = site_allowed(ctx, short, lambda s_: s_ == "InitMethod.init")
        rep.oblige("C07.W", f"producer:{short}", ok)
        if not ok:
            rep.violate(Violation("C07.W", f"C07.W|producer|{short}", f"{short} sets __spec_class_initializing__, which disables the frozen guard outside construction", site, short))
    r = pmap(init_worker, [0])[0]
    rep.functions |= set(r["functions"])
    bad = []
    nflag = 0
    for row in r["rows"]:
        if row["kind"] != "ok":
            continue
        tr = row["trace"]
        ws = [e for e in tr if e[0] == "W"]
        if not ws:
            continue
        if not (ws[0][1] == "rawset" and ws[0][2]):
            bad.append("an attribute is written before the initialising flag is set")
        if not (ws[-1][1] == "rawdel" and ws[-1][2]):
            bad.append("the initialising flag is not removed at the end of construction")
        else:
            nflag += 1
            idx_del = max(i for i, e in enumerate(tr) if e[0] == "W" and e[1] == "rawdel" and e[2])
            if any(e == ("U", "post_init") for e in tr[idx_del:]):
                bad.append("__post_init__ runs after the initialising flag was removed")
    if nflag == 0:
        bad.append("no normal path sets and removes the initialising flag")
    rep.oblige("C07.W", "InitMethod.init[window]", not bad, "; ".join(sorted(set(bad))))
    rep.sample({"entry": "InitMethod.init[frozen]", "traces": [row["trace"] for row in r["rows"][:3]]})
    for b in sorted(set(bad)):
        rep.violate(Violation("C07.W", f"C07.W|window|{b[:50]}", f"InitMethod.init: {b}", "", "InitMethod.init"))


def check(ctx, rep):
    from . import metarules, shared
    _check_main(ctx, rep)
    from . import metarules, r5rules
    r5rules.options_independent(ctx, rep, "C07.OPTS")
    r5rules.mutate_value_inplace_sites(ctx, rep, "C07.MV")
    metarules.frozen_error_bases(ctx, rep, "C07.EXC")
    metarules.missing_default_contradiction(ctx, rep, "C07.INH")
    metarules.for_class_rule(ctx, rep, "C07.META", ("mro",))
    from .c02 import def_rule
    def_rule(ctx, rep, "C07.DEF")      # two frozen instances built from one default must not share it
    metarules.options_verbatim(ctx, rep, "C07.OPT", ("frozen",))
