"""C05 — scalar and top-level helpers compute the documented new state (structural clauses only).

The value-level equivalence with a reference model is NOT decided statically.  Decided clauses:
C05.IF    _if=False: pure `return self`
C05.SENT  mutate_attr: MISSING / EMPTY / UNCHANGED return the object untouched; mutate_value:
          UNCHANGED returns the old value untouched
C05.FWD   flag forwarding: with _inplace=True every normal path returns the receiver itself and every
          raw write lands on the receiver; with _inplace=False a path that writes returns a fresh object
          and raw writes land on it
C05.LIVE  every declared parameter of every helper is used (reaches a callee argument or a branch)
C05.EQV   one code path: obj.a = v and with_a(v, _inplace=True) both run prepare_attr_value then
          mutate_attr(inplace=True); update_/transform_ reach the raw write only through with_attr;
          reset_/reset/del only through the __delattr__ closure
"""
from __future__ import annotations

import ast

from ..model import AnalysisError
from ..report import Report, Violation
from ..runs import run_function
from ..scenarios import core_impl, recv_sym
from ..values import ARG, CLS, FRESH, IMM, RECV, Const, Event, Sentinel, Sym, vrepr
from . import c01, provrun
from .base import get_ctx, pmap, walk_own

META = {
    "assumptions": ["value-level results (what the new state equals) are not decided"],
    "trusted": ["sa abstract interpreter", "stdlib ast"],
}

WATCH = ("prepare_attr_value", "mutate_attr", "WithAttrMethod.with_attr", "mutate_value",
         "DelAttrMethod.build_method.<locals>.__delattr__", "SetAttrMethod.build_method.<locals>.__setattr__")


def _red(trace, ev):
    k = ev[0]
    if k == "W" and ev[1] in ("rawset", "rawdel"):
        n = Event(("RAW", ev[1], ev[2], tuple(ev[3])))
    elif k == "CALL":
        n = Event(("CALL", ev[1]))
    else:
        return trace
    if n in trace:
        return trace
    return trace + (n,)


_red.is_reducer = True


def fwd_worker(task):
    hid, shape, fam, inplace = task
    ctx = get_ctx()

    def conf(cfg):
        cfg.watch_calls = set(WATCH)
        cfg.rawset_raises = False
    r = provrun.run((hid, shape, fam), _red, inplace=inplace, setattr_mode="inline", configure=conf)
    bad = []
    h = ctx.helpers[hid]
    toplevel_value = h.family == "toplevel" and shape == "given"   # update(new_value) returns new_value
    for p in r["paths"]:
        if p["kind"] != "ok":
            continue
        raws = [e for e in p["trace"] if e[0] == "RAW"]
        if inplace:
            if not toplevel_value and p["value"] != "self":
                bad.append(f"returns `{p['value']}` instead of the receiver with _inplace=True")
            for e in raws:
                if "RECV" not in e[3] and not toplevel_value:
                    bad.append(f"raw write lands on `{e[2]}` ({'+'.join(e[3])}) instead of the receiver with _inplace=True")
        else:
            for e in raws:
                if "RECV" in e[3] and e[2] not in p["imm"]:
                    bad.append(f"raw write lands on the receiver `{e[2]}` with _inplace=False")
            if raws and p["value"] == "self" and "self" not in p["imm"]:
                bad.append("returns the receiver after writing with _inplace=False")
        # EQV funnel clauses
        calls = [e[1] for e in p["trace"] if e[0] == "CALL"]
        if raws:
            fam_ = h.family
            if fam_ == "scalar" and h.impl_name in ("update_attr", "transform_attr") and \
                    not any("with_attr" in c or "prepare_attr_value" in c for c in calls):
                bad.append("reaches the raw write without going through with_attr / prepare_attr_value (the value is stored unprepared)")
            if h.impl_name in ("reset_attr", "reset") and not any("__delattr__" in c for c in calls):
                bad.append("reaches the raw write/delete without going through the __delattr__ closure")
    r["bad"] = sorted(set(bad))
    r["task4"] = task
    return r


def eqv_worker(_):
    """__setattr__ closure vs with_attr(_inplace=True): same call/write skeleton."""
    ctx = get_ctx()
    out = {}

    def conf(cfg):
        cfg.event_filter = _red
        cfg.watch_calls = {"prepare_attr_value", "mutate_attr"}
        cfg.rawset_raises = False
        cfg.user_may_raise = False
        cfg.loop_unroll = 1
    fi = core_impl(ctx.H, "__setattr__").impl
    it, outs = run_function(ctx.p, ctx.H, fi, [recv_sym(), Sym(("attr",), {IMM}), Sym(("value",), {ARG}, tags={"nonsentinel"})],
                            {}, configure=conf)
    out["closure"] = sorted({tuple(tuple(e) for e in o.state.trace) for o in outs if o.kind == "ok"})
    h = ctx.helpers["WithAttrMethod.with_attr"] if "WithAttrMethod.with_attr" in ctx.helpers else None
    from ..runs import run_helper
    it2, outs2 = run_helper(ctx.p, ctx.H, h, inplace=True, shape="given", configure=conf, cache=False)
    out["with_attr"] = sorted({tuple(tuple(e) for e in o.state.trace) for o in outs2 if o.kind == "ok"})
    return out


def sent_worker(_):
    ctx = get_ctx()
    fi = ctx.p.find_function("mutate_value")
    old = Sym(("old",), {RECV}, tags={"nonsentinel"})
    it, outs = run_function(ctx.p, ctx.H, fi, [old], {"new_value": Sentinel("UNCHANGED", False),
                                                       "attrs": Sym(("attrs",), {ARG}),
                                                       "transform": Sym(("transform",), {ARG})})
    rows = [{"kind": o.kind, "ret": vrepr(o.value) if o.kind == "ok" else o.value.cls,
             "events": [tuple(map(str, e)) for e in o.state.trace if e[0] in ("W", "U", "CP")]} for o in outs]
    return rows


def helper_sentinel_worker(task):
    """A scalar helper called with a marker as the value and nothing else: outcome per path."""
    hid, sname, fam = task
    ctx = get_ctx()
    h = ctx.helpers[hid]
    from ..scenarios import attr_spec_sym
    from ..runs import run_function as _rf

    def conf(cfg):
        cfg.event_filter = _red
        cfg.rawset_raises = False
        cfg.user_may_raise = False
        cfg.loop_unroll = 1
        provrun.set_family(cfg, ctx, fam)
    ps = h.params()
    vname = ps["positional"][0] if ps["positional"] else None
    if vname is None:
        return {"task": task, "rows": None}
    kw = {vname: Sentinel(sname, False), "_inplace": Const(False), "_if": Const(True)}
    facts = {("truthy", ("attr_spec", ".is_collection")): fam is not None}
    it, outs = _rf(ctx.p, ctx.H, h.impl, [attr_spec_sym(), recv_sym()], kw, family=fam, configure=conf, extra_facts=facts,
                   setattr_mode="inline")
    rows = [{"kind": o.kind, "ret": vrepr(o.value) if o.kind == "ok" else o.value.cls,
             "raw": [tuple(map(str, e)) for e in o.state.trace if e[0] == "RAW"]} for o in outs]
    return {"task": task, "rows": rows, "functions": sorted(it.functions_entered)}


def _check_main(ctx, rep: Report):
    # IF (shared with C01)
    rep.rules["C05.IF"] = "with _if=False the only outcome is `return self` with no event"
    for rows in pmap(c01.if_worker, list(ctx.helpers)):
        for hid, inplace, ok, tr in rows:
            rep.oblige("C05.IF", f"{hid}[_inplace={inplace}]", ok)
            rep.evaluations += 1
            if not ok:
                rep.violate(Violation("C05.IF", f"C05.IF|{hid}", f"{hid} has effects or does not return the receiver when _if=False", "", hid, tr, hid))
    # SENT
    rep.rules["C05.SENT"] = "sentinel values are no-ops"
    from .c02 import ret_worker
    for sname in ("MISSING", "EMPTY", "UNCHANGED"):
        r = ret_worker((sname, Sentinel(sname, False), False))
        bad = [row for row in r["rows"] if row["kind"] != "ok" or row["ret"] != "self" or row["writes"]]
        rep.oblige("C05.SENT", f"mutate_attr[{sname}]", not bad)
        rep.evaluations += len(r["rows"])
        if bad:
            rep.violate(Violation("C05.SENT", f"C05.SENT|mutate_attr|{sname}", f"mutate_attr(value={sname}) is not a no-op returning the object: {bad[0]}", "", "mutate_attr"))
    rows = sent_worker(0)
    bad = [row for row in rows if row["kind"] != "ok" or not row["ret"].startswith("old") or row["events"]]
    rep.oblige("C05.SENT", "mutate_value[UNCHANGED]", not bad)
    if bad:
        rep.violate(Violation("C05.SENT", "C05.SENT|mutate_value|UNCHANGED", f"mutate_value(new_value=UNCHANGED) does not return the old value untouched: {bad[0]}", "", "mutate_value"))

    # helper level: the marker as the only argument
    tasks_s = [(hid, sname, fam) for hid in ("WithAttrMethod.with_attr", "UpdateAttrMethod.update_attr") if hid in ctx.helpers
               for sname in ("UNCHANGED", "MISSING") for fam in (None, "sequence", "mapping", "set")]
    if len(tasks_s) < 16:
        raise AnalysisError("C05.SENT: with_attr / update_attr helpers not found")
    for r in pmap(helper_sentinel_worker, tasks_s):
        hid, sname, fam = r["task"]
        if r["rows"] is None:
            raise AnalysisError(f"C05.SENT: {hid} has no value parameter")
        rep.functions |= set(r["functions"])
        rep.evaluations += len(r["rows"])
        bad = [row for row in r["rows"] if row["kind"] == "ok" and (row["ret"] != "self" or row["raw"])]
        rep.oblige("C05.SENT", f"{hid}({sname})[{fam}]", not bad, f"{len(r['rows'])} paths")
        if bad:
            b = bad[0]
            what = "writes " + b["raw"][0][2] if b["raw"] else f"returns `{b['ret']}` instead of the receiver"
            rep.violate(Violation("C05.SENT", f"C05.SENT|helper|{hid}|{sname}|{fam}",
                                  f"{hid} called with {sname} as the value (attribute kind: {fam or 'scalar'}) is not a no-op returning the receiver: it {what}",
                                  "", hid))

    # FWD + funnel
    rep.rules["C05.FWD"] = "_inplace reaches the behaviour: returned object identity and the target of raw writes per flag value; funnel clauses of C05.EQV"
    tasks = [(h, s, f, ip) for (h, s, f) in provrun.helper_tasks(ctx, families=False) for ip in (False, True)]
    for r in pmap(fwd_worker, tasks):
        provrun.absorb(rep, r)
        hid, shape, fam, ip = r["task4"]
        rep.oblige("C05.FWD", f"{r['entry']}[inplace={ip}]", not r["bad"], "; ".join(r["bad"][:2]))
        for b in r["bad"]:
            rule = "C05.EQV" if "going through" in b else "C05.FWD"
            rep.violate(Violation(rule, f"{rule}|{hid}|inplace={ip}|{b[:60]}", f"{hid}: {b}", "", hid, [], r["entry"]))

    # LIVE
    rep.rules["C05.LIVE"] = "every declared helper parameter is read in the implementation"
    for hid, h in ctx.helpers.items():
        ps = h.params()
        names = ps["positional"] + ps["kwonly"] + ([ps["varkw"]] if ps["varkw"] else [])
        loaded = {n.id for n in walk_own(h.impl.node) if isinstance(n, ast.Name) and isinstance(n.ctx, ast.Load)}
        # names used inside nested lambdas count too
        loaded |= {n.id for n in ast.walk(h.impl.node) if isinstance(n, ast.Name) and isinstance(n.ctx, ast.Load)}
        for n in names:
            ok = n in loaded
            rep.oblige("C05.LIVE", f"{hid}:{n}", ok)
            if not ok:
                rep.violate(Violation("C05.LIVE", f"C05.LIVE|{hid}|{n}", f"{hid}: advertised parameter `{n}` never reaches the behaviour (unused)",
                                      f"{h.impl.module.relpath}:{h.impl.node.lineno}", hid))

    # EQV skeleton
    rep.rules["C05.EQV"] = "__setattr__ closure and with_attr(_inplace=True) have the same prepare_attr_value -> mutate_attr -> raw write skeleton"
    r = pmap(eqv_worker, [0])[0]

    def skeletons(traces):
        out = set()
        for tr in traces:
            sk = tuple((e[0], e[1]) if e[0] == "CALL" else (e[0], e[1], e[3]) for e in tr)
            if any(x[0] == "RAW" for x in sk):
                out.add(sk)
        return out
    a, b = skeletons(r["closure"]), skeletons(r["with_attr"])
    unmanaged = {sk for sk in a if sk[0] == ("CALL", "mutate_attr")}    # attribute not managed: no preparation
    a = a - unmanaged
    ok = bool(a) and a == b and all(sk[0] == ("CALL", "prepare_attr_value") for sk in a)
    rep.oblige("C05.EQV", "__setattr__ ~ with_attr(_inplace=True)", ok, f"closure={sorted(a)[:2]} with_attr={sorted(b)[:2]}")
    rep.sample({"entry": "C05.EQV", "closure": sorted(a)[:2], "with_attr": sorted(b)[:2]})
    if not ok:
        rep.violate(Violation("C05.EQV", "C05.EQV|setattr-vs-with_attr", f"obj.a = v and with_a(v, _inplace=True) no longer share one code path: {sorted(a ^ b)[:2] or 'prepare_attr_value is not the first step'}",
                              "", "SetAttrMethod.__setattr__"))


    # ---- RESET: del / reset_<a> / reset restore the default a new instance of type(self) would get (shared with C08.DEL)
    rep.rules["C05.RESET"] = "__delattr__ re-installs lookup_default_value(type(self)) (fresh; honours factories and subclass overrides)"
    from .c08 import del_worker
    r = pmap(del_worker, [0])[0]
    rep.functions |= set(r["functions"])
    rep.evaluations += len(r["rows"])
    bad = []
    nset = 0
    for row in r["rows"]:
        for how, val, prov, site in row["stores"]:
            if how == "rawset":
                nset += 1
                if "FRESH" not in prov and val not in row["imm"] and "USER" not in prov:
                    bad.append(f"re-installs `{val}` ({'+'.join(prov)})")
    if nset == 0:
        bad.append("no default is re-installed at all")
    if not r["lookup_called"]:
        bad.append("the default does not come from Attr.lookup_default_value(type(self)): default factories / subclass overrides are ignored")
    rep.oblige("C05.RESET", "DelAttrMethod.__delattr__", not bad, "; ".join(sorted(set(bad))))
    for b in sorted(set(bad)):
        rep.violate(Violation("C05.RESET", f"C05.RESET|{b[:70]}", f"__delattr__ (del / reset_<attr> / reset): {b}", "", "DelAttrMethod.__delattr__"))

    # ---- FWD at the funnel: mutate_attr(inplace=False) writes onto and returns a fresh copy for every real value
    for frozen in (False, True):
        rr = ret_worker(("value", Sym(("value",), {ARG}, tags={"nonsentinel"}), frozen))
        bad = []
        for row in rr["rows"]:
            if row["kind"] == "ok" and ("FRESH" not in row["ret_prov"] or row["ret"] == "self"):
                bad.append(f"returns {row['ret']} for a real value with inplace=False")
            for how, tgt, prov in row["writes"]:
                if prov != ("FRESH",):
                    bad.append(f"{how} on {tgt} {prov} with inplace=False")
        rep.oblige("C05.FWD", f"mutate_attr[inplace=False,frozen={frozen}]", not bad, "; ".join(sorted(set(bad))[:2]))
        for b in sorted(set(bad)):
            rep.violate(Violation("C05.FWD", f"C05.FWD|mutate_attr|frozen={frozen}|{b[:60]}", f"mutate_attr: {b}: with_<a>(v) must yield a new instance carrying the change", "", "mutate_attr"))


    # ---- PIPE: attribute transforms are applied one after the other (each sees the effects of the previous one,
    # e.g. invalidation), exactly like a chain of single transform_<a> calls
    rep.rules["C05.PIPE"] = "mutate_value: transform(k) is evaluated after the assignment of transform(k-1) (interleaved, not batched)"
    fi = ctx.p.find_function("mutate_value")
    from .base import with_callees
    pipe_fns = [g for g in with_callees(ctx.p, fi, 1) if g is fi or (g.module is fi.module and g.node.name.startswith("_"))]
    loops = [n for g in pipe_fns for n in walk_own(g.node) if isinstance(n, ast.For) and ("attr_transforms" in ast.unparse(n.iter) or "transform" in ast.unparse(n.target))]
    bad = []
    if not loops:
        bad.append("no loop over attr_transforms")
    else:
        body = ast.unparse(loops[-1])
        calls = [n for n in ast.walk(loops[-1]) if isinstance(n, ast.Call) and ast.unparse(n.func) in ("setattr",)]
        tcalls = [n for n in ast.walk(loops[-1]) if isinstance(n, ast.Call) and isinstance(n.func, ast.Name) and "transform" in n.func.id]
        if not calls or not tcalls:
            bad.append("the transform and its assignment are no longer in the same loop iteration (all transforms are evaluated against the pre-call state)")
        others = [n for g in pipe_fns for n in walk_own(g.node) if isinstance(n, (ast.DictComp, ast.ListComp)) and "attr_transforms" in ast.unparse(n)]
        if others:
            bad.append("attribute transforms are evaluated in a batch before any assignment")
    rep.oblige("C05.PIPE", "mutate_value attr_transforms loop", not bad, "; ".join(bad))
    for b in bad:
        rep.violate(Violation("C05.PIPE", f"C05.PIPE|{b[:50]}", f"mutate_value: {b}: transform(a=f, b=g) differs from transform_a(f).transform_b(g) when b depends on a", f"{fi.module.relpath}:{fi.node.lineno}", "mutate_value"))
    loops = [n for g in pipe_fns for n in walk_own(g.node) if isinstance(n, ast.For) and ast.unparse(n.iter).endswith(".items()") and "transform" not in ast.unparse(n)
             and any(isinstance(x, ast.Call) and ast.unparse(x.func) == "setattr" for x in ast.walk(n))]
    ok = bool(loops) and any(isinstance(n, ast.Call) and ast.unparse(n.func) == "setattr" for n in ast.walk(loops[0]))
    rep.oblige("C05.PIPE", "mutate_value attrs loop", ok)
    if not ok:
        rep.violate(Violation("C05.PIPE", "C05.PIPE|attrs", "mutate_value no longer assigns keyword attributes one by one in the order given", f"{fi.module.relpath}:{fi.node.lineno}", "mutate_value"))

    resetall_rule(ctx, rep)


def resetall_rule(ctx, rep, rule="C05.RESETALL"):
    # ---- RESETALL: reset() resets every attribute; an attribute with nothing to reset does not stop the others
    rep.rules[rule] = "ResetMethod.reset: AttributeError is handled per attribute (inside the loop)"
    rh = ctx.helpers.get("ResetMethod.reset")
    if rh is None:
        raise AnalysisError(f"{rule}: ResetMethod.reset not found")
    fn = rh.impl.node
    from .base import with_callees
    loops = []
    for g in with_callees(ctx.p, rh.impl, 2):          # the loop may live in a private helper of reset()
        if g.module.name.startswith(ctx.p.package + ".methods"):
            for n in walk_own(g.node):
                if isinstance(n, ast.For) and not loops:
                    loops.append(n)
                    fn = g.node
    bad = []
    if not loops:
        bad.append("no loop over the managed attributes")
    else:
        loop = loops[0]
        from .r5rules import _subst
        if "attrs" not in _subst(fn, loop.iter):
            bad.append(f"iterates `{ast.unparse(loop.iter)}` rather than the managed attributes")
        inner = [t for t in ast.walk(loop) if isinstance(t, ast.Try) and any("AttributeError" in ast.unparse(h.type or ast.Constant(0)) for h in t.handlers)]
        # `with contextlib.suppress(AttributeError):` is the same per-attribute handler
        inner += [t for t in ast.walk(loop) if isinstance(t, ast.With) and any(
            isinstance(it.context_expr, ast.Call) and ast.unparse(it.context_expr.func).split(".")[-1] == "suppress"
            and any("AttributeError" in ast.unparse(a_) for a_ in it.context_expr.args) for it in t.items)]
        outer = [t for t in walk_own(fn) if isinstance(t, (ast.Try, ast.With)) and any(x is loop for x in ast.walk(t)) and "AttributeError" in ast.unparse(t)]
        dels = [n for n in ast.walk(loop) if isinstance(n, ast.Call) and ast.unparse(n.func) == "delattr"]
        if not dels:
            bad.append("attributes are not reset through delattr")
        if dels and not inner:
            bad.append("AttributeError is " + ("handled around the whole loop: the first attribute with nothing to reset silently stops the reset of all later attributes" if outer else "not handled: one unset attribute aborts reset()"))
    rep.oblige(rule, "ResetMethod.reset", not bad, "; ".join(bad))
    for b in bad:
        rep.violate(Violation(rule, f"{rule}|{b[:60]}", f"ResetMethod.reset: {b}", f"{rh.impl.module.relpath}:{fn.lineno}", "ResetMethod.reset"))



def check(ctx, rep):
    from . import metarules, shared
    _check_main(ctx, rep)
    from . import metarules, r5rules
    r5rules.setattr_rules(ctx, rep, "C05.DUNDER", ("forward", "prepare", "default"))
    r5rules.varkw_not_rebound(ctx, rep, "C05.KW")
    r5rules.forward_verbatim(ctx, rep, "C05.FLAGS")
    shared.own_namespace_lookups(ctx, rep, "C05.NS")
    shared.unused_params(ctx, rep, "C05.PARAM", ["spec_classes.utils.mutation", "spec_classes.methods.scalar", "spec_classes.methods.toplevel"])
    metarules.preparer_registration(ctx, rep, "C05.PREP")
    shared.mutable_defaults(ctx, rep, "C05.STATE")
    metarules.preparer_always(ctx, rep, "C05.PREPALL")
