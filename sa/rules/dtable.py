"""Decision-table comparison: implementation rows (atoms -> outcome) against an oracle function,
exhaustively over the finite atom space."""
from __future__ import annotations

import itertools
from typing import Callable, Dict, List

from ..model import AnalysisError


def build_rows(outs, classify: Callable, outcome: Callable, ignore=lambda k: False):
    """classify(fact_key) -> (atom, polarity) | None ; outcome(Outcome) -> hashable."""
    rows = []
    for o in outs:
        atoms = {}
        for k, v in o.state.decisions:
            if ignore(k):
                continue
            c = classify(k)
            if c is None:
                raise AnalysisError(f"decision table: unclassified condition {k!r}")
            name, pos = c
            val = v if pos else (not v)
            if name in atoms and atoms[name] != val:
                atoms = None   # contradictory path (infeasible combination of two views of one atom)
                break
            atoms[name] = val
        if atoms is None:
            continue
        rows.append((atoms, outcome(o), o))
    return rows


def compare(rows, oracle: Callable[[Dict[str, bool]], object], domain: List[str], constraint=lambda a: True):
    """Returns (n_assignments, mismatches[(assignment, expected, got)])."""
    mism = []
    n = 0
    for vals in itertools.product([False, True], repeat=len(domain)):
        a = dict(zip(domain, vals))
        if not constraint(a):
            continue
        n += 1
        exp = oracle(a)
        if exp is None:
            continue
        hits = [r for r in rows if all(a.get(k) == v for k, v in r[0].items() if k in a)]
        if not hits:
            mism.append((a, exp, "<no path>"))
            continue
        for atoms, got, _ in hits:
            if got != exp:
                mism.append((a, exp, got))
                break
    return n, mism


def summarize(mism, limit=3):
    out = []
    seen = set()
    for a, exp, got in mism:
        key = (repr(exp), repr(got))
        if key in seen:
            continue
        seen.add(key)
        on = ",".join(k for k, v in a.items() if v)
        out.append(f"[{on or 'none'}] expected {exp} got {got}")
        if len(out) >= limit:
            break
    return out
