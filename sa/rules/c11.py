"""C11 — derived values are never stale after a dependency changes.

C11.POST  every raw attribute write / delete (mutate_attr, __delattr__ closure) is followed, on every
          normal path, by invalidate_attrs(same object, same attribute) - unless skip_invalidation
          was requested or there is nothing to invalidate; never before the write
C11.HELP  every helper path (in place and copy-on-write) that changes the attribute, the instance or
          the attribute's container ends with the invalidation of that attribute on the object
          that received the change
C11.SKIP  who-may-skip: skip_invalidation=<true> is produced only by the constructor
C11.MAP   invalidate_attrs: dependants of the attribute and of '*', deleted through delattr()
          (so defaults are re-installed and deletion propagates), AttributeError handled per dependant,
          propagation continues through dependants that held no value (C11.TRANS)
C11.SRC   the invalidation map draws on Attr.invalidated_by and on __spec_class_invalidated_by__ of
          class members along the MRO; build_attr_spec lifts the latter from a default
"""
from __future__ import annotations

import ast

from ..model import AnalysisError
from ..report import Report, Violation
from ..runs import describe_path, run_function
from ..scenarios import core_impl, recv_sym
from ..values import ARG, CLS, FRESH, IMM, RECV, Const, Event, Sym, vrepr
from . import provrun
from .base import get_ctx, pmap, walk_own

META = {
    "assumptions": ["user callbacks do not mutate library-visible state", "the invalidation map is non-empty in the scenarios (an empty map has nothing to invalidate)"],
    "trusted": ["sa abstract interpreter", "stdlib ast"],
}

MAP_TRUE = lambda k: True if (k[0] == "truthy" and isinstance(k[1], tuple) and k[1][-1] == ".invalidation_map") else None


def _red(trace, ev):
    k = ev[0]
    if k == "W":
        n = Event(("W", ev[1], ev[2], tuple(ev[3]), ev[4], ev[9]))
    elif k == "INV":
        n = Event(("INV", ev[1], ev[2], ev[-1]))
    else:
        return trace
    if trace and trace[-1] == n:
        return trace
    return trace + (n,)


_red.is_reducer = True


def post_worker(variant):
    which, inplace = variant
    ctx = get_ctx()
    if which == "mutate_attr":
        fi = ctx.p.find_function("mutate_attr")
        kw = {"obj": recv_sym(), "attr": Sym(("attr",), {IMM}), "value": Sym(("value",), {ARG}, tags={"nonsentinel"}),
              "inplace": Const(inplace)}
        args = []
    else:
        fi = core_impl(ctx.H, "__delattr__").impl
        args = [recv_sym(), Sym(("attr",), {IMM})]
        kw = {}

    def conf(cfg):
        cfg.event_filter = _red
        cfg.fact_defaults.insert(0, MAP_TRUE)
        cfg.rawset_raises = False
        cfg.user_may_raise = False
    it, outs = run_function(ctx.p, ctx.H, fi, args, kw, frozen=False, do_not_copy=False, configure=conf,
                            initializing=None)     # both during and after construction
    rows = []
    for o in outs:
        if o.kind != "ok":
            # a raising path must not have invalidated anything
            invs = [e for e in o.state.trace if e[0] == "INV"]
            rows.append({"kind": "exc", "inv_before_fail": bool(invs), "trace": [tuple(e) for e in o.state.trace]})
            continue
        tr = [tuple(e) for e in o.state.trace]
        raw = [(i, e) for i, e in enumerate(tr) if e[0] == "W" and e[1] in ("rawset", "rawdel")]
        row = {"kind": "ok", "trace": tr, "problems": []}
        for i, e in raw:
            after = [x for x in tr[i + 1:] if x[0] == "INV" and x[1] == e[2] and x[2].strip("'") == str(e[4]).strip("'")]
            before = [x for x in tr[:i] if x[0] == "INV"]
            if not after:
                row["problems"].append(("missing", e[-1]))
            if before and not any(b[0] == "W" for b in tr[:tr.index(before[0])]):
                row["problems"].append(("early", before[0][-1]))
        rows.append(row)
    return {"variant": variant, "rows": rows, "functions": sorted(it.functions_entered)}


def help_worker(task):
    hid, shape, fam, inplace = task
    ctx = get_ctx()

    def conf(cfg):
        cfg.fact_defaults.insert(0, MAP_TRUE)
        cfg.rawset_raises = False
    r = provrun.run((hid, shape, fam), _red, inplace=inplace, setattr_mode="inline", configure=conf, loop_unroll=1)
    bad = []
    for p in r["paths"]:
        if p["kind"] != "ok":
            continue
        tr = p["trace"]
        ws = [i for i, e in enumerate(tr) if e[0] == "W" and (set(e[3]) & {"RECV", "FRESH"})
              and not e[2].startswith(("_", "attrs", "call/"))]
        if not ws:
            continue
        last = ws[-1]
        # the write that matters: on the instance (self / its copy) or on the attribute's container
        def root(t):
            parts = t.split("/")
            while parts and parts[0] in ("copy", "shallowcopy"):
                parts = parts[1:]
            return parts[0] if parts else ""
        def is_instance(t):
            parts = t.split("/")
            while parts and parts[0] in ("copy", "shallowcopy"):
                parts = parts[1:]
            return len(parts) == 1 or (parts[0] == "new" and len(parts) == 2)
        relevant = [i for i in ws if tr[i][2] not in p["imm"] and root(tr[i][2]) in ("self", "new")
                    and (is_instance(tr[i][2]) or tr[i][1].startswith("method:") or tr[i][1] in ("setitem", "delitem"))]
        if not relevant:
            continue
        lastw = relevant[-1]
        if not any(e[0] == "INV" for e in tr[lastw + 1:]) and not any(e[0] == "INV" for e in tr[relevant[0]:]):
            bad.append({"site": tr[lastw][-1], "write": tr[lastw][:4], "desc": p["desc"]})
    r["bad"] = bad
    r["task4"] = task
    return r


def _check_main(ctx, rep: Report):
    # ---- POST / AFTER
    rep.rules["C11.POST"] = "raw write/delete => invalidate_attrs(same obj, same attr) afterwards on every normal path; nothing invalidated on failing paths"
    variants = [("mutate_attr", False), ("mutate_attr", True), ("__delattr__", True)]
    for r in pmap(post_worker, variants):
        rep.functions |= set(r["functions"])
        rep.evaluations += len(r["rows"])
        name = f"{r['variant'][0]}[inplace={r['variant'][1]}]"
        probs = sorted({p for row in r["rows"] if row["kind"] == "ok" for p in row["problems"]})
        nraw = sum(1 for row in r["rows"] if row["kind"] == "ok" and any(e[0] == "W" for e in row["trace"]))
        if nraw == 0:
            raise AnalysisError(f"C11.POST: no raw write found in {name}")
        early = [row for row in r["rows"] if row["kind"] == "exc" and row["inv_before_fail"]]
        rep.oblige("C11.POST", name, not probs and not early, f"{nraw} writing paths")
        for row in r["rows"][:2]:
            rep.sample({"entry": name, "trace": row["trace"]})
        for row in r["rows"]:
            rep.nontrivial.add((name, tuple(row["trace"])))
        for kind, site in probs:
            fn, stmt = ctx.p.stmt_at(site)
            what = ("is not followed by invalidate_attrs for the same object and attribute: dependants keep stale values"
                    if kind == "missing" else "invalidation happens before the write it belongs to")
            rep.violate(Violation("C11.POST", f"C11.POST|{kind}|{fn}|{stmt}", f"{fn}: `{stmt}` {what}", site, fn, [], name))
        if early:
            rep.violate(Violation("C11.POST", f"C11.AFTER|{name}", f"{name}: dependants are invalidated on a path that then fails", "", name))

    # ---- HELP
    rep.rules["C11.HELP"] = "helper paths that change the instance/its container invalidate the attribute afterwards (in place and on the copy)"
    tasks = [(h, s, f, ip) for (h, s, f) in provrun.helper_tasks(ctx, families=False) for ip in (False, True)]
    for r in pmap(help_worker, tasks):
        provrun.absorb(rep, r)
        hid, shape, fam, ip = r["task4"]
        rep.oblige("C11.HELP", f"{r['entry']}[inplace={ip}]", not r["bad"], f"{len(r['paths'])} paths")
        for b in r["bad"][:2]:
            fn, stmt = ctx.p.stmt_at(b["site"])
            rep.violate(Violation("C11.HELP", f"C11.HELP|{hid}|inplace={ip}|{fn}|{stmt}",
                                  f"{hid}(_inplace={ip}): after `{stmt}` ({fn}) changed the instance / its container the call returns without invalidating the attribute's dependants",
                                  b["site"], fn, b["desc"], r["entry"]))

    # ---- SKIP
    rep.rules["C11.SKIP"] = "skip_invalidation=<true> only from InitMethod.init (plain forwarding of the own parameter allowed)"
    nskip = 0
    for fi in ctx.p.iter_functions():
        if fi.is_lambda:
            continue
        short = fi.qualname.split(":")[-1].split("#")[0]
        own = {a.arg for a in fi.node.args.args + fi.node.args.kwonlyargs}
        for node in walk_own(fi.node):
            if isinstance(node, ast.Call):
                for kw in node.keywords:
                    if kw.arg != "skip_invalidation":
                        continue
                    if isinstance(kw.value, ast.Constant) and kw.value.value is False:
                        continue
                    if isinstance(kw.value, ast.Name) and kw.value.id == "skip_invalidation" and "skip_invalidation" in own:
                        continue
                    nskip += 1
                    from .base import site_allowed
                    ok = site_allowed(ctx, short, lambda s_: s_ == "InitMethod.init")
                    rep.oblige("C11.SKIP", f"{short}", ok)
                    if not ok:
                        rep.violate(Violation("C11.SKIP", f"C11.SKIP|{short}", f"{short} passes skip_invalidation={ast.unparse(kw.value)}: the mutation leaves dependants stale",
                                              f"{fi.module.relpath}:{node.lineno}", short))
    if nskip < 2:
        raise AnalysisError(f"C11.SKIP: {nskip} producers found (floor 2)")

    # ---- MAP / TRANS
    rep.rules["C11.MAP"] = "invalidate_attrs interpreted (delattr may fail): dependants of attr and of '*' are each deleted through delattr; a failing delete neither escapes nor stops the others; it propagates to the dependant's own dependants"
    fi = ctx.p.find_function("invalidate_attrs")
    site = f"{fi.module.relpath}:{fi.node.lineno}"

    def conf_map(cfg):
        cfg.user_may_raise = False
        cfg.loop_unroll = 2
        cfg.delattr_may_raise = True
    params = [a.arg for a in fi.node.args.args]
    if params[:3] != ["obj", "attr", "invalidation_map"]:
        raise AnalysisError(f"C11.MAP: unexpected signature of invalidate_attrs {params}")
    it_, outs_ = run_function(ctx.p, ctx.H, fi, [Sym(("obj",), {RECV}, tags={"nonsentinel"}), Sym(("attr",), {IMM}, tags={"nonsentinel"}),
                                             Sym(("imap",), {CLS}, tags={"nonsentinel"})], {}, configure=conf_map)
    rep.functions |= set(it_.functions_entered)
    rep.evaluations += len(outs_)
    probs = []
    names = set()
    per_item = trans = False
    for o in outs_:
        evs = [e for e in o.state.trace if e[0] in ("W", "DELFAIL", "INV")]
        if o.kind == "exc" and getattr(o.value, "cls", "") == "AttributeError":
            probs.append(("nohandler", "a dependant with nothing to delete aborts the mutation with AttributeError (or stops the invalidation of the remaining dependants)"))
        for i, e in enumerate(evs):
            if e[0] == "W" and e[1] == "delattr()" and e[2] == "obj":
                names.add(str(e[4]))
            if e[0] == "W" and e[2] == "obj" and e[1] not in ("delattr()",):
                probs.append(("nodelattr", f"a dependant is changed through `{e[1]}` instead of delattr(obj, name) (defaults are not re-installed / deletion does not propagate)"))
            if e[0] == "DELFAIL":
                names.add(str(e[2]))
                item = str(e[2]).strip("{}")
                later = evs[i + 1:]
                if any(x[0] in ("W", "DELFAIL") and str(x[4] if x[0] == "W" else x[2]).strip("{}") != item for x in later):
                    per_item = True
                if any(x[0] == "INV" and str(x[2]) == item for x in later):
                    trans = True
    if not names:
        probs.append(("nodelattr", "dependants are not deleted through delattr(obj, name)"))
    else:
        if not any("[attr]" in n_ or "attr" in n_.replace("imap", "") for n_ in names):
            probs.append(("noattr", "dependants of the mutated attribute are not looked up"))
        if not any("'*'" in n_ for n_ in names):
            probs.append(("nostar", "dependants registered for '*' are not invalidated"))
        if not per_item and not any(p_[0] == "nohandler" for p_ in probs):
            probs.append(("handler-outside", "after a dependant with nothing to delete, no further dependant is invalidated on any path"))
        if not trans:
            probs.append(("TRANS", "a dependant that holds no value (uncached property, unset attribute) ends the chain: attributes depending on it keep stale values"))
    probs = sorted(set(probs))
    rep.oblige("C11.MAP", "invalidate_attrs", not probs, "; ".join(p[1] for p in probs))
    for code, text in probs:
        rule = "C11.TRANS" if code == "TRANS" else "C11.MAP"
        rep.violate(Violation(rule, f"{rule}|invalidate_attrs|{code}", f"invalidate_attrs: {text}", site, "invalidate_attrs"))

    # ---- SRC
    rep.rules["C11.SRC"] = "both sources of the invalidation map are consulted"
    ci = ctx.p.find_class("SpecClassMetadata")
    c, m = ctx.p.lookup_method(ci, "invalidation_map")
    src = ast.unparse(m[0].node) if isinstance(m, list) else ""
    need = {"invalidated_by": "Attr.invalidated_by of managed attributes", "__spec_class_invalidated_by__": "__spec_class_invalidated_by__ of class members",
            "mro()": "members inherited along the MRO", "self.attrs": "managed attributes"}
    for token, text in need.items():
        ok = token in src
        rep.oblige("C11.SRC", f"invalidation_map:{token}", ok)
        if not ok:
            rep.violate(Violation("C11.SRC", f"C11.SRC|invalidation_map|{token}", f"SpecClassMetadata.invalidation_map no longer draws on {text}",
                                  f"{m[0].module.relpath}:{m[0].node.lineno}" if isinstance(m, list) else "", "SpecClassMetadata.invalidation_map"))
    b = ctx.p.find_function("spec_class.build_attr_spec")
    ok = "__spec_class_invalidated_by__" in ast.unparse(b.node)
    rep.oblige("C11.SRC", "build_attr_spec:lift", ok)
    if not ok:
        rep.violate(Violation("C11.SRC", "C11.SRC|build_attr_spec", "build_attr_spec no longer lifts __spec_class_invalidated_by__ from a default (spec_property assigned to a managed attribute)",
                              f"{b.module.relpath}:{b.node.lineno}", "spec_class.build_attr_spec"))


def check(ctx, rep):
    from . import metarules, shared
    _check_main(ctx, rep)
    from . import metarules, r5rules
    r5rules.property_rules(ctx, rep, "C11.PROP", ("inv",))
    r5rules.refresh_rules(ctx, rep, "C11.REFRESH")
    r5rules.setattr_rules(ctx, rep, "C11.DUNDER", ("forward",))
    r5rules.invalidate_no_force(ctx, rep, "C11.INV")
    shared.own_namespace_lookups(ctx, rep, "C11.NS")
    metarules.property_rebuild_forwards(ctx, rep, "C11.SRC")
    metarules.recursion_threads_guard(ctx, rep, "C11.TRANS")
    shared.mutable_defaults(ctx, rep, "C11.STATE")
    shared.borrow(ctx, rep, "c12", {"C12.T": "C11.SLOT"})       # invalidation deletes the cached value through the descriptor: the delete table must admit it
    metarules.invalidated_by_source(ctx, rep, "C11.SRC")
