"""C01 — copy-on-write helpers never change the receiver or their arguments.

Rule C01.W (ownership): with _inplace false, every write event on every abstract
path of every helper targets an object allocated inside the operation.
Rule C01.IF: with _if false the helper has no effect and returns the receiver.
"""
from __future__ import annotations

from ..report import Report, Violation
from ..runs import describe_path, events, run_helper
from . import provrun
from ..values import CLS, FRESH, GLOBAL, Const, vrepr
from .base import get_ctx, immutable_reprs, is_imm, pmap, wkey

def _keep(ev):
    """The *set* of writes to not-purely-fresh objects (value fields dropped)."""
    if ev[0] == "INV":
        # invalidate_attrs(obj, attr) deletes / resets dependants *on obj*
        if tuple(ev[3]) == (FRESH,):
            return None
        return ("W", "invalidate_attrs", ev[1], tuple(ev[3]), None, None, None, (), "", ev[-1])
    if ev[0] != "W" or tuple(ev[3]) == (FRESH,):
        return None
    return ("W", ev[1], ev[2], ev[3], None, None, None, (), ev[8], ev[9])


RED = provrun.set_reducer(_keep)


def tasks(ctx):
    return provrun.helper_tasks(ctx) + provrun.keyed_tasks(ctx)


def worker(task):
    ctx = get_ctx()
    from ..state import Budget
    try:
        r = provrun.run(task, RED, inplace=False, alias=True)
    except Budget:
        # the callback-aliasing refinement multiplies states on the largest tasks; fall back to the plain run for this task
        r = provrun.run(task, RED, inplace=False, alias=False)
        r["alias_fallback"] = True
    viols, classwrites, userwrites = [], set(), set()
    nontriv = set()
    for p in r["paths"]:
        ws = [e for e in p["trace"] if e[0] == "W"]
        if ws:
            nontriv.add(tuple((e[1], e[2], e[3], e[-1]) for e in ws))
        for e in ws:
            prov = set(e[3])
            if prov <= {FRESH}:
                continue
            if prov <= {CLS, GLOBAL}:
                classwrites.add((e[1], e[2], e[4], e[-1]))
                continue
            if is_imm(e[2], p["imm"]):
                continue   # target is an immutable atom on this path: the write cannot succeed
            # results of user callbacks (preparers, transforms) may alias receiver / argument state
            # (soundness envelope 1): writing them uncopied is an ownership violation as well
            viols.append({"key": wkey(ctx.p, "C01.W", e), "site": e[-1], "prov": sorted(prov), "how": e[1],
                          "target": e[2], "via": e[8], "entry": r["entry"], "path": p["desc"]})
    r["viols"] = viols
    r["classwrites"] = sorted(classwrites)
    r["userwrites"] = sorted(userwrites)
    r["nontrivial"] = len(nontriv)
    return r


def if_worker(hid):
    ctx = get_ctx()
    h = ctx.helpers[hid]
    res = []
    for inplace in (False, True):
        it, outs = run_helper(ctx.p, ctx.H, h, inplace=inplace, if_=False, shape="given", cache=False)
        ok = len(outs) == 1 and outs[0].kind == "ok" and vrepr(outs[0].value) == "self" \
            and not [e for e in outs[0].state.trace if e[0] in ("W", "U", "R", "CP", "INV")]
        res.append((hid, inplace, ok, [list(map(str, e)) for o in outs for e in o.state.trace][:6]))
    return res


def w_rule(ctx, rep: Report, rule: str = "C01.W", task_filter=None):
    """Copy-on-write routes write nothing that existed before the call (shared by the properties that rest on it)."""
    rep.rules[rule] = ("every WRITE event (attribute set/delete, raw set/delete, container mutation, "
                       "subscript store/delete) on every abstract path of each helper under _inplace=False "
                       "targets only objects allocated/copied inside the call; non-trivial = path with a write "
                       "to a non-fresh object (distinct by write sequence)")
    env = {"_inplace": False, "frozen": False, "do_not_copy": False, "_if": True}
    if env not in rep.envs:
        rep.envs.append(env)
    ts = [t for t in tasks(ctx) if task_filter is None or task_filter(ctx.helpers[t[0]], t)]
    results = pmap(worker, ts)
    classwrites = set()
    for r in results:
        provrun.absorb(rep, r)
        for cw in r["classwrites"]:
            classwrites.add(tuple(cw))
        for uw in r["userwrites"]:
            rep.extra.setdefault("writes_to_user_callback_results", set()).add(tuple(uw))
        rep.oblige(rule, r["entry"], not r["viols"],
                   f"{len(r['paths'])} paths" + (f"; {len(r['viols'])} offending writes" if r["viols"] else ""))
        for v in r["viols"]:
            fn, stmt = ctx.p.stmt_at(v["site"])
            rep.violate(Violation(rule, rule + v["key"][len("C01.W"):],
                                  f"{v['how']} on {'+'.join(v['prov'])} object `{v['target']}` with _inplace=False: `{stmt}`",
                                  v["site"], fn, v["path"], v["entry"]))
    rep.extra["class_or_global_writes"] = sorted(map(list, classwrites))[:40]
    rep.extra["writes_to_user_callback_results"] = sorted(map(list, rep.extra.get("writes_to_user_callback_results", ())))[:40]
    return len(results)


def _check_main(ctx, rep: Report):
    rep.rules["C01.IF"] = "with _if=False the only outcome is `return self` with no event"
    w_rule(ctx, rep, "C01.W")
    for rows in pmap(if_worker, list(ctx.helpers)):
        for hid, inplace, ok, tr in rows:
            rep.oblige("C01.IF", f"{hid}[_inplace={inplace}]", ok, "" if ok else f"events with _if=False: {tr}")
            if not ok:
                rep.violate(Violation("C01.IF", f"C01.IF|{hid}", f"{hid} has effects or does not return the receiver when _if=False",
                                      "", hid, tr, hid))
    if len(rep.obligations) < 19 * 2:
        from ..model import AnalysisError
        raise AnalysisError("C01: fewer obligations than helpers")


def check(ctx, rep):
    _check_main(ctx, rep)
    from . import metarules, r5rules
    metarules.for_class_rule(ctx, rep, "C01.META", ("dnc",))
    r5rules.mutate_value_inplace_sites(ctx, rep, "C01.MV")
    # the caller's collection is only kept (and then prepared in place: known finding F-C01-1) when it already conforms;
    # anything else is rebuilt into a new container
    from .c04 import prepare_new_rule
    prepare_new_rule(ctx, rep, "C01.NEW")
    from .c02 import dc_rule
    dc_rule(ctx, rep, "C01.DC")       # the object the helpers write to is a new one
