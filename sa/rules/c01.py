"""C01 — copy-on-write helpers never change the receiver or their arguments.

Rule C01.W (ownership): with _inplace false, every write event on every abstract
path of every helper targets an object allocated inside the operation.
Rule C01.IF: with _if false the helper has no effect and returns the receiver.
"""
from __future__ import annotations

from ..report import Report, Violation
from ..runs import describe_path, events, run_helper
from ..values import CLS, FRESH, GLOBAL, Const, vrepr
from .base import get_ctx, immutable_reprs, pmap, wkey

FAMILIES_FOR_SCALAR = (None, "sequence", "mapping", "set")


def _keep(trace, ev):
    """Trace reducer: the *set* of writes to not-purely-fresh objects (value fields dropped)."""
    if ev[0] != "W" or tuple(ev[3]) == (FRESH,):
        return trace
    from ..values import Event
    n = Event(("W", ev[1], ev[2], ev[3], None, None, None, (), ev[8], ev[9]))
    if n in trace:
        return trace
    return tuple(sorted(trace + (n,), key=repr))


_keep.is_reducer = True


def tasks(ctx):
    out = []
    for hid, h in ctx.helpers.items():
        for shape in ("given", "default"):
            if h.family == "scalar":
                import ast as _ast
                direct = any(isinstance(n, _ast.Name) and n.id == "prepare_attr_value"
                             for n in _ast.walk(h.impl.node))
                for fam in FAMILIES_FOR_SCALAR:
                    # collection-typed attribute: the whole-collection preparation runs inside
                    # prepare_attr_value; helpers that only reach it through another helper are
                    # covered by that helper's run (all families in the thorough tier)
                    if fam is None or direct or ctx.thorough:
                        out.append((hid, shape, fam))
            else:
                out.append((hid, shape, None))
    return out


def worker(task):
    hid, shape, fam = task
    ctx = get_ctx()
    h = ctx.helpers[hid]

    def conf(cfg):
        cfg.event_filter = _keep
        cfg.loop_unroll = 1     # the rule is about the *set* of writes: one symbolic iteration covers it
        if fam is not None:
            cfg.scalar_family = fam
    conf.__name__ = f"c01_{fam}"
    from ..scenarios import SpecProtocol
    extra = {("truthy", ("attr_spec", ".is_collection")): fam is not None} if h.family == "scalar" else None
    it, outs = run_helper(ctx.p, ctx.H, h, inplace=False, shape=shape, frozen=False, do_not_copy=False,
                          configure=(lambda cfg: (conf(cfg), _set_family(cfg, ctx, fam))), extra_facts=extra,
                          cache=False)
    viols, classwrites, npaths, nontriv, userwrites = [], set(), 0, set(), set()
    for o in outs:
        npaths += 1
        imm = immutable_reprs(o.state.facts)
        ws = events(o, "W")
        if ws:
            nontriv.add(tuple((e[1], e[2], e[3], e[-1]) for e in ws))
        for e in ws:
            prov = set(e[3])
            if prov <= {FRESH}:
                continue
            if prov <= {CLS, GLOBAL}:
                classwrites.add((e[1], e[2], e[4], e[-1]))
                continue
            if e[2] in imm:
                continue   # target is an immutable atom on this path: the write cannot succeed
            if not (prov & {"RECV", "ARG"}):
                userwrites.add((e[1], e[2], e[-1]))   # result of a user callback: not receiver/argument state
                continue
            viols.append({"key": wkey(ctx.p, "C01.W", e), "site": e[-1], "prov": sorted(prov), "how": e[1],
                          "target": e[2], "via": e[8], "entry": f"{hid}[{shape},{fam}]",
                          "path": describe_path(o)})
    sample = None
    if outs:
        o = outs[0]
        sample = {"entry": f"{hid}[{shape},{fam}]", "outcome": o.kind, "events": describe_path(o, 6)}
    return {"task": task, "paths": npaths, "nontrivial": len(nontriv), "viols": viols,
            "classwrites": sorted(classwrites), "userwrites": sorted(userwrites), "functions": sorted(it.functions_entered),
            "call_sites": len(it.call_sites), "sample": sample, "unclassified": sorted(it.unclassified)}


def _set_family(cfg, ctx, fam):
    """For scalar helpers on a collection-typed attribute, resolve get_collection_mutator."""
    if fam is None:
        return
    from ..scenarios import MUTATOR_OF
    from ..values import ClassV, PartialO, Ref, Sym
    mc = ctx.p.find_class(MUTATOR_OF[fam])

    def hook(interp, st, objv, attr, site):
        if isinstance(objv, Sym) and objv.tok == ("attr_spec",) and attr == "get_collection_mutator":
            return Ref(st.alloc("partial:get_collection_mutator", PartialO(ClassV(mc), (objv,), {})))
        return None
    cfg.attr_hooks.insert(0, hook)


def if_worker(hid):
    ctx = get_ctx()
    h = ctx.helpers[hid]
    res = []
    for inplace in (False, True):
        it, outs = run_helper(ctx.p, ctx.H, h, inplace=inplace, if_=False, shape="given", cache=False)
        ok = len(outs) == 1 and outs[0].kind == "ok" and vrepr(outs[0].value) == "self" \
            and not [e for e in outs[0].state.trace if e[0] in ("W", "U", "R", "CP", "INV")]
        res.append((hid, inplace, ok, [list(map(str, e)) for o in outs for e in o.state.trace][:6]))
    return res


def check(ctx, rep: Report):
    rep.rules["C01.W"] = ("every WRITE event (attribute set/delete, raw set/delete, container mutation, "
                          "subscript store/delete) on every abstract path of each helper under _inplace=False "
                          "targets only objects allocated/copied inside the call; non-trivial = path with a write "
                          "to a non-fresh object (distinct by write sequence)")
    rep.rules["C01.IF"] = "with _if=False the only outcome is `return self` with no event"
    rep.envs.append({"_inplace": False, "frozen": False, "do_not_copy": False, "_if": True})
    results = pmap(worker, tasks(ctx))
    classwrites = set()
    for r in results:
        hid, shape, fam = r["task"]
        rep.entry_points.add(hid)
        rep.evaluations += r["paths"]
        rep.functions |= set(r["functions"])
        rep.extra["call_sites_n"] = rep.extra.get("call_sites_n", 0) + r["call_sites"]
        for cw in r["classwrites"]:
            classwrites.add(tuple(cw))
        for uw in r["userwrites"]:
            rep.extra.setdefault("writes_to_user_callback_results", set()).add(tuple(uw))
        if r["sample"]:
            rep.sample(r["sample"])
        for n in range(r["nontrivial"]):
            rep.nontrivial.add((hid, shape, fam, n))
        rep.oblige("C01.W", f"{hid}[{shape},{fam}]", not r["viols"],
                   f"{r['paths']} paths" + (f"; {len(r['viols'])} offending writes" if r["viols"] else ""))
        for v in r["viols"]:
            fn, stmt = ctx.p.stmt_at(v["site"])
            rep.violate(Violation("C01.W", v["key"],
                                  f"{v['how']} on {'+'.join(v['prov'])} object `{v['target']}` with _inplace=False: `{stmt}`",
                                  v["site"], fn, v["path"], v["entry"]))
        for u in r["unclassified"]:
            rep.notes.append(f"unclassified external call assumed pure: {u}")
    rep.extra["class_or_global_writes"] = sorted(map(list, classwrites))[:40]
    rep.extra["writes_to_user_callback_results"] = sorted(map(list, rep.extra.get("writes_to_user_callback_results", ())))[:40]
    for rows in pmap(if_worker, list(ctx.helpers)):
        for hid, inplace, ok, tr in rows:
            rep.oblige("C01.IF", f"{hid}[_inplace={inplace}]", ok, "" if ok else f"events with _if=False: {tr}")
            if not ok:
                rep.violate(Violation("C01.IF", f"C01.IF|{hid}", f"{hid} has effects or does not return the receiver when _if=False",
                                      "", hid, tr, hid))
    if len(rep.obligations) < 19 * 2:
        from ..model import AnalysisError
        raise AnalysisError("C01: fewer obligations than helpers")
