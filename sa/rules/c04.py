"""C04 — an operation that raises leaves every pre-existing object unchanged.

C04.AT  failure atomicity as an ordering property: on every abstract path of every in-place route
        (19 helpers with _inplace=True, the __setattr__/__delattr__ closures), after the first write
        to a pre-existing object (receiver, its containers, arguments) there is no raise point, no
        primitive that may raise and no user callback.  Non-in-place routes never write a
        pre-existing object at all (C01.W), so an exception cannot leave one changed.
C04.ORD _mutate_collection: the inserter call is the last effectful statement of the try body
C04.NEW prepare(): an incoming collection that fails the type check is re-inserted into a *new* collection
"""
from __future__ import annotations

import ast

from ..model import AnalysisError
from ..report import Report, Violation
from ..runs import run_function
from ..scenarios import core_impl, recv_sym
from ..values import ARG, CLS, FRESH, IMM, RECV, Const, Event, Sym, vrepr
from . import provrun
from .base import get_ctx, pmap, walk_own, is_imm

META = {
    "assumptions": [
        "user callbacks may raise at any invocation but do not themselves mutate library-visible state",
        "container primitives of list/dict/set are atomic (they either raise or write)",
        "the raw attribute write of a managed attribute does not itself fail half-way",
        "only raise points that exist in the code (explicit raise, primitives that may raise, user callbacks) are considered; faults injected at arbitrary bytecode boundaries are not",
    ],
    "trusted": ["sa abstract interpreter", "stdlib ast"],
}


def _reducer(trace, ev):
    k = ev[0]
    if not trace:
        if k == "W" and (set(ev[3]) & {RECV, ARG}):
            return (Event(("DIRTY", ev[1], ev[2], tuple(ev[3]), ev[8], ev[9])),)
        if k == "INV" and (set(ev[3]) & {RECV, ARG}):
            # invalidating dependants deletes / resets them on the object
            return (Event(("DIRTY", "invalidate_attrs", ev[1], tuple(ev[3]), "", ev[-1])),)
        return trace
    if k in ("R", "UR", "MR", "RR"):
        n = Event((k, ev[1], ev[-1]))
    elif k == "U":
        n = Event(("U", ev[1], ev[2], ev[-1]))
    elif k == "W" and (set(ev[3]) & {RECV, ARG}):
        n = Event(("W2", ev[1], ev[2], ev[-1]))
    else:
        return trace
    if n in trace:
        return trace
    return trace + (n,)


_reducer.is_reducer = True


def _analyse(ctx, trace, imm):
    """Violations of one path: events after the first dirty write."""
    if not trace or trace[0][0] != "DIRTY":
        return []
    d = trace[0]
    if is_imm(d[2], imm):
        return []
    from .base import owner_of
    dfn, dstmt = ctx.p.stmt_at(d[-1])
    dfn = owner_of(ctx.p, dfn)
    out = []
    for e in trace[1:]:
        if e[0] == "W2":
            continue
        if e[0] == "MR" and ("/._dict" in e[1] or e[1].startswith("setitem:") and "/._list" in e[1]):
            continue    # KeyedList/KeyedSet keep a key index next to the items: see C13.COH / C13.AT for these steps
        fn, stmt = ctx.p.stmt_at(e[-1])
        fn = owner_of(ctx.p, fn)
        kind = {"R": "raise", "RR": "re-raise", "UR": "user callback raises", "MR": "primitive may raise",
                "U": "user callback / constructor call"}[e[0]]
        out.append({"key": f"C04.AT|{'+'.join(d[3])}|{dfn}|{dstmt}|then:{e[0]}|{fn}|{stmt}",
                    "what": f"after `{dstmt}` ({dfn}) has changed a pre-existing {'+'.join(d[3])} object, `{stmt}` ({fn}) can still fail [{kind}]: the operation is partially committed",
                    "site": e[-1], "fn": fn, "dirty_site": d[-1], "via": d[4]})
    return out


def worker(task):
    ctx = get_ctx()
    r = provrun.run(task, _reducer, inplace=True, loop_unroll=(2 if (task[2] is None and len(task) == 3) else 1),
                    configure=lambda cfg: setattr(cfg, "rawset_raises", False))
    viols = []
    for p in r["paths"]:
        for v in _analyse(ctx, p["trace"], p["imm"]):
            v["entry"] = r["entry"]
            v["path"] = p["desc"]
            viols.append(v)
    r["viols"] = viols
    return r


def closure_worker(which):
    ctx = get_ctx()
    fi = core_impl(ctx.H, which).impl
    args = [recv_sym(), Sym(("attr",), {IMM})]
    if which == "__setattr__":
        args.append(Sym(("value",), {ARG}, tags={"nonsentinel"}))

    def conf(cfg):
        cfg.event_filter = _reducer
        cfg.loop_unroll = 2
        cfg.rawset_raises = False
    rows = []
    fns = set()
    for fam in (None, "sequence", "mapping", "set"):
        def conf2(cfg, fam=fam):
            conf(cfg)
            cfg.loop_unroll = 2 if fam is None else 1
            provrun.set_family(cfg, ctx, fam)
            from ..scenarios import MUTATOR_OF
            if fam:
                mc = ctx.p.find_class(MUTATOR_OF[fam])
                from ..values import ClassV, PartialO, Ref

                def hook(interp, st, objv, attr, site):
                    if isinstance(objv, Sym) and attr == "get_collection_mutator" and ".attrs" in objv.tok:
                        return Ref(st.alloc("partial:get_collection_mutator", PartialO(ClassV(mc), (objv,), {})))
                    return None
                cfg.attr_hooks.insert(0, hook)
        facts = {}
        it, outs = run_function(ctx.p, ctx.H, fi, args, {}, frozen=False, do_not_copy=False, configure=conf2,
                                extra_facts=facts)
        fns |= it.functions_entered
        from .base import immutable_reprs
        for o in outs:
            for v in _analyse(ctx, tuple(o.state.trace), immutable_reprs(o.state.facts)):
                v["entry"] = f"{which}[{fam}]"
                rows.append(v)
        if which == "__delattr__":
            break
    return {"which": which, "viols": rows, "functions": sorted(fns)}


def prepare_new_rule(ctx, rep, rule="C04.NEW"):
    rep.rules[rule] = "prepare(): when the incoming collection fails check_type, items are added to a newly created collection"
    from .c03 import prep_worker
    for r in pmap(prep_worker, ["sequence", "mapping", "set"]):
        bad = [row for row in r["rows"] if not row["whole_checked"] and row["collection"] == "incoming"]
        rep.oblige(rule, f"{r['fam']}.prepare", not bad)
        for row in bad[:1]:
            rep.violate(Violation(rule, f"{rule}|{r['fam']}", "prepare() re-inserts into the old collection instead of a new one", "", "prepare"))



def _check_main(ctx, rep: Report):
    rep.rules["C04.AT"] = ("in-place routes: no raise / may-raise primitive / user callback after the first write to a "
                           "pre-existing (RECV/ARG) object, loops unrolled twice; non-trivial = path containing a dirty write")
    rep.envs.append({"_inplace": True, "frozen": False, "do_not_copy": False})
    for r in pmap(worker, provrun.helper_tasks(ctx) + provrun.keyed_tasks(ctx)):
        provrun.absorb(rep, r)
        rep.oblige("C04.AT", r["entry"], not r["viols"], f"{len(r['paths'])} paths")
        for v in r["viols"]:
            ekey = v["entry"].replace("[", "/").replace("]", "").replace(",", "/")
            rep.violate(Violation("C04.AT", v["key"] + "|entry:" + ekey, v["what"], v["site"], v["fn"], v.get("path", []), v["entry"]))
    for r in pmap(closure_worker, ["__setattr__", "__delattr__"]):
        rep.functions |= set(r["functions"])
        rep.entry_points.add(r["which"])
        rep.oblige("C04.AT", r["which"], not r["viols"])
        for v in r["viols"]:
            rep.violate(Violation("C04.AT", v["key"], v["what"], v["site"], v["fn"], [], v["entry"]))

    # ---- ORD
    rep.rules["C04.ORD"] = "_mutate_collection: inserter(...) is the last call of the try body, followed only by `return self`"
    fi = ctx.p.find_function("CollectionAttrMutator._mutate_collection")
    trys = [n for n in walk_own(fi.node) if isinstance(n, ast.Try)]
    ok = False
    detail = "no try block"
    if trys:
        body = trys[0].body
        calls = [i for i, s in enumerate(body) if any(isinstance(n, ast.Call) and ast.unparse(n.func) == "inserter" for n in ast.walk(s))]
        if not calls:
            detail = "inserter is not called in the try body"
        else:
            after = body[calls[-1] + 1:]
            eff = [s for s in after if not (isinstance(s, ast.Return) and ast.unparse(s.value) == "self")]
            # `mutate_value` may be reached through a private helper of the mutator called before the insertion
            from .base import static_callees, with_private_callees
            helper_names = {short_name_.split(".")[-1] for short_name_ in
                            (g_.qualname.split(":")[-1] for _n, g_ in static_callees(ctx.p, fi))
                            if short_name_.split(".")[-1].startswith("_")}
            via_helper = {n_ for n_ in helper_names for g_ in with_private_callees(ctx.p, fi)
                          if g_.qualname.split(":")[-1].split(".")[-1] == n_ and "mutate_value" in ast.unparse(g_.node)}

            def mentions(s_, name):
                t_ = ast.unparse(s_)
                return name in t_ or (name == "mutate_value" and any(h_ + "(" in t_ for h_ in via_helper))
            before_ok = all(any(mentions(s, name) for s in body[:calls[-1]]) for name in ("extractor", "mutate_value"))
            ok = not eff and before_ok
            detail = "" if ok else f"statements after the insertion: {[ast.unparse(s)[:40] for s in eff]}; extractor/mutate_value precede: {before_ok}"
    rep.oblige("C04.ORD", "CollectionAttrMutator._mutate_collection", ok, detail)
    if not ok:
        rep.violate(Violation("C04.ORD", "C04.ORD|_mutate_collection", f"_mutate_collection: the collection is edited before the item is fully computed/validated ({detail})",
                              f"{fi.module.relpath}:{fi.node.lineno}", "CollectionAttrMutator._mutate_collection"))

    # ---- NEW
    prepare_new_rule(ctx, rep)


def check(ctx, rep):
    from . import metarules, shared
    _check_main(ctx, rep)
    from . import metarules, r5rules
    r5rules.property_rules(ctx, rep, "C04.PROP", ("order",))
    r5rules.init_spec_source(ctx, rep, "C04.INIT")
    r5rules.mutate_value_inplace_sites(ctx, rep, "C04.MV")
    metarules.recursion_threads_guard(ctx, rep, "C04.REC")
    from .c01 import w_rule
    w_rule(ctx, rep, "C04.COW")      # copy-on-write routes write nothing pre-existing, so a failure cannot leave it changed
