"""C12 — spec_property and classproperty follow the override / cache / getter protocol.

The protocol is a finite state machine over boolean options and slot presence; each descriptor
method is interpreted once per feasible truth assignment of its conditions and the extracted
table (conditions -> effects) is compared, exhaustively, with an oracle written from the property
statement.  Single-step tables compose: the only state is the slot, and both slot values are rows.
C12.T  spec_property.__get__/__set__/__delete__      C12.CP  classproperty (slot = _cache[key])
C12.K  getter()/setter()/deleter() rebuild the descriptor with the protocol options forwarded
"""
from __future__ import annotations

import ast

from ..common import Outcome
from ..model import AnalysisError
from ..report import Report, Violation
from ..runs import run_function
from ..values import ARG, CLS, FRESH, IMM, RECV, Const, ExcV, Sentinel, Sym, vrepr
from . import dtable
from .base import get_ctx, pmap, walk_own

META = {"assumptions": ["getter/setter/deleter callbacks are opaque", "the instance __dict__ is only touched by the descriptor and the raw attribute protocol"],
        "trusted": ["sa abstract interpreter", "stdlib ast"]}


def _conf(ci, opaque_fields):
    def conf(cfg):
        cfg.sym_classes[("self",)] = ci
        cfg.sym_method_filter = lambda c_, name: name not in opaque_fields
        cfg.record_decisions = True
        cfg.user_may_raise = True
        cfg.fact_defaults.clear()       # no assumption environment: every condition is enumerated
        cfg.stubs["prepare_attr_value"] = _stub_prepare
    return conf


def _stub_prepare(interp, st, args, kwargs, frame, node):
    st.emit("PREP", interp.site(frame, node))
    return [Outcome("ok", st, Sym(("prepared",), {"USER"}))]


SP_FIELDS = {"fget", "fset", "fdel", "overridable", "cache", "attr_name", "allow_attribute_error", "warn_on_override",
             "owner", "attrs", "_qualified_name", "invalidated_by"}


def _classify_sp(k):
    r = repr(k)
    if k[0] == "is" and k[1] == ("instance",):
        return ("instance_none", True)
    if k[0] == "truthy" and k[1] == ("instance",):
        return ("instance_none", False)
    if k[0] in ("truthy", "is") and isinstance(k[1], tuple) and k[1][:1] == ("self",):
        f = k[1][-1].lstrip(".")
        if f in ("fget", "fset", "fdel"):
            return (f"{f}_none", k[0] == "is")
        if f in ("overridable", "cache", "allow_attribute_error", "warn_on_override"):
            return (f, True)
        if f == "attr_name":
            return ("has_name", True)
    if k[0] == "in" and ".__dict__" in r:
        return ("slot", True)
    if k[0] == "in" and ".attrs" in r:
        return ("managed_attr", True)
    if k[0] == "hasattr" and k[2] == "__spec_class__":
        return ("spec", True) if k[1] == ("instance",) else ("spec_of:" + "/".join(map(str, k[1])), True)
    if k[0] == "truthy" and k[1][-1] == ".__spec_class__":
        return ("spec", True) if k[1][:-1] == ("instance",) else ("spec_of:" + "/".join(map(str, k[1][:-1])), True)
    if k[0] == "uraise":
        return ("cb_raises", True)
    if k[0] == "caught":
        return ("cb_attribute_error", True)
    if k[0] == "check":
        return ("type_ok", True)
    if k[0] == "is" and isinstance(k[2], tuple) and k[2][0] == "S":
        return ("value_sentinel_" + k[2][1], True)
    if k[0] == "isinstance" and "builtins.bool" in r:
        return ("warn_is_bool", True)
    if k[0] == "truthy" and k[1][:1] == ("owner",):
        return ("has_owner", True)
    return None


def _outcome_sp(o):
    ws = [(e[1], e[2], e[5]) for e in o.state.trace if e[0] == "W"]
    us = [e[1].split("/")[-1] for e in o.state.trace if e[0] == "U"]
    prep = any(e[0] == "PREP" for e in o.state.trace)
    if o.kind == "ok":
        ret = vrepr(o.value)
        if "__dict__" in ret:
            ret = "slot"
        elif ret in ("MISSING", "EMPTY", "UNCHANGED"):
            ret = "prepared" if prep else "getter"
        elif ret.startswith("call/"):
            ret = "getter"
        res = ("return", ret)
    else:
        res = ("raise", o.value.cls)
    w = tuple(("store" if x[0] == "setitem" else "delete", "slot" if "__dict__" in x[1] else x[1],
               ("prepared" if x[2] == "prepared" else ("getter" if (x[2] or "").startswith("call/") else x[2])) if x[0] == "setitem" else None)
              for x in ws)
    return (res, w, tuple(u.lstrip(".") for u in us), prep)


def sp_worker(meth):
    ctx = get_ctx()
    ci = ctx.p.find_class("spec_property")
    c, m = ctx.p.lookup_method(ci, meth)
    selfv = Sym(("self",), {CLS})
    inst = Sym(("instance",), {RECV})
    args = {"__get__": [selfv, inst, Sym(("owner",), {CLS})], "__set__": [selfv, Sym(("instance",), {RECV}, tags={"nonsentinel"}), Sym(("value",), {ARG}, tags={"nonsentinel"})],
            "__delete__": [selfv, Sym(("instance",), {RECV}, tags={"nonsentinel"})]}[meth]
    it, outs = run_function(ctx.p, ctx.H, m[0], args, {}, configure=_conf(ci, SP_FIELDS))
    rows = dtable.build_rows(outs, _classify_sp, _outcome_sp)
    return [(a, out) for a, out, _ in rows], sorted(it.functions_entered)


# ---- oracles (written from the property statement) ---------------------------------------------
def oracle_get(a):
    if a["instance_none"]:
        return (("return", "self"), (), (), False)
    if (a["overridable"] or a["cache"]) and a["slot"]:
        return (("return", "slot"), (), (), False)
    if a["fget_none"]:
        return (("raise", "AttributeError"), (), (), False)
    if a["cb_raises"]:
        if a["cb_attribute_error"] and not a["allow_attribute_error"]:
            return (("raise", "NestedAttributeError"), (), ("fget",), False)
        return (("raise", "?"), (), ("fget",), False)
    managed = a["spec"] and a["managed_attr"]
    if managed and not a["type_ok"]:
        return (("raise", "ValueError"), (), ("fget",), True)
    val = "prepared" if managed else "getter"
    sentinel = a["value_sentinel_MISSING"] or a["value_sentinel_EMPTY"] or a["value_sentinel_UNCHANGED"]
    w = (("store", "slot", val),) if (a["cache"] and not sentinel) else ()
    return (("return", val), w, ("fget",), managed)


def oracle_set(a):
    if not a["fset_none"]:
        if a["cb_raises"]:
            return (("raise", "?"), (), ("fset",), False)
        return (("return", "None"), (), ("fset",), False)
    if a["overridable"]:
        return (("return", "None"), (("store", "slot", "value"),), (), False)
    return (("raise", "AttributeError"), (), (), False)


def oracle_delete(a):
    if not a["fdel_none"]:
        if a["cb_raises"]:
            return (("raise", "?"), (), ("fdel",), False)
        return (("return", "None"), (), ("fdel",), False)
    if (a["overridable"] or a["cache"]) and a["slot"]:
        return (("return", "None"), (("delete", "slot", None),), (), False)
    return (("raise", "AttributeError"), (), (), False)


DOMAINS = {
    "__get__": ["instance_none", "overridable", "cache", "slot", "fget_none", "cb_raises", "cb_attribute_error",
                "allow_attribute_error", "spec", "managed_attr", "type_ok", "value_sentinel_MISSING",
                "value_sentinel_EMPTY", "value_sentinel_UNCHANGED"],
    "__set__": ["fset_none", "overridable", "cb_raises"],
    "__delete__": ["fdel_none", "overridable", "cache", "slot", "cb_raises"],
}
ORACLES = {"__get__": oracle_get, "__set__": oracle_set, "__delete__": oracle_delete}


def _norm(out, meth):
    """Drop outcome aspects the statement does not speak about (warnings, the sentinel atoms of a raising getter...)."""
    res, w, us, prep = out
    if meth == "__get__" and res[0] == "raise" and res[1] == "?":
        return (res, (), us, False)
    return out


# ---- classproperty -------------------------------------------------------------------------------
CP_FIELDS = SP_FIELDS | {"_cache", "cache_per_subclass", "_fget", "_fset", "_fdel"}


def _classify_cp(k):
    r = repr(k)
    if k[0] == "in" and "._cache" in r:
        return ("slot", True)
    if k[0] == "is" and "._cache" in r and k[2] == ("C", "NoneType", "None"):
        return ("slot_value_none", True)
    if k[0] in ("truthy", "is") and isinstance(k[1], tuple) and k[1][:1] == ("self",):
        f = k[1][-1].lstrip(".").lstrip("_")
        if f in ("fget", "fset", "fdel"):
            return (f"{f}_none", k[0] == "is")
        if f in ("overridable", "cache", "allow_attribute_error", "warn_on_override", "cache_per_subclass"):
            return (f, True)
    if k[0] == "truthy" and k[1] == ("objtype",):
        return ("has_objtype", True)
    if k[0] == "pred" and "isclass" in r:
        return ("obj_is_class", True)
    if k[0] == "uraise":
        return ("cb_raises", True)
    if k[0] == "caught":
        return ("cb_attribute_error", True)
    if k[0] == "isinstance" and "builtins.bool" in r:
        return ("warn_is_bool", True)
    if k[0] == "truthy" and "attrs" in r:
        return ("cache_per_subclass", True)
    if k[0] == "in" and "cache_per_subclass" in r:
        return ("cps_given", True)
    if k[0] == "truthy" and k[1][:1] == ("owner",):
        return ("has_owner", True)
    return None


def _outcome_cp(o):
    ws = []
    for e in o.state.trace:
        if e[0] == "W" and "_cache" in e[2]:
            ws.append(("store" if e[1] == "setitem" else "delete", "slot"))
    us = tuple(e[1].split("/")[-1].lstrip("._") for e in o.state.trace if e[0] == "U")
    us = tuple(u for u in us if u in ("__get__", "fget", "fset", "fdel") or u.startswith("call"))
    if o.kind == "ok":
        ret = vrepr(o.value)
        ret = "slot" if "_cache" in ret else ("getter" if ret.startswith("call/") else ret)
        res = ("return", ret)
    else:
        res = ("raise", o.value.cls)
    called = any(e[0] == "U" for e in o.state.trace)
    return (res, tuple(ws), called)


CP_NORM = {}


def cp_worker(meth):
    ctx = get_ctx()
    ci = ctx.p.find_class("classproperty")
    c, m = ctx.p.lookup_method(ci, meth)
    selfv = Sym(("self",), {CLS})
    args = {"__get__": [selfv, Sym(("obj",), {RECV}), Sym(("objtype",), {CLS})],
            "__set__": [selfv, Sym(("obj",), {RECV}), Sym(("value",), {ARG}, tags={"nonsentinel"})],
            "__delete__": [selfv, Sym(("obj",), {RECV})]}[meth]

    def conf(cfg):
        _conf(ci, CP_FIELDS)(cfg)
        # properties fget/fset/fdel/cache_per_subclass are read through their backing fields
        cfg.sym_method_filter = lambda c_, name: name not in (CP_FIELDS - {"fget", "fset", "fdel", "cache_per_subclass"})
    it, outs = run_function(ctx.p, ctx.H, m[0], args, {}, configure=conf)
    rows = dtable.build_rows(outs, _classify_cp, _outcome_cp)
    # receiver normalisation facts: (obj known to be a class?, cache keys used, raw receiver handed to a callback?)
    norm = []
    for a, out, o in rows:
        keys = tuple(e[4] for e in o.state.trace if e[0] == "W" and "_cache" in e[2])
        raw_cb = any(e[0] == "U" and e[2] == "__get__" and any(x[1] == "obj" for x in e[3]) for e in o.state.trace)
        norm.append((a.get("obj_is_class"), a.get("cache_per_subclass"), keys, raw_cb))
    CP_NORM[meth] = norm
    return [(a, out) for a, out, _ in rows], sorted(it.functions_entered)


def oracle_cp_get(a):
    if a["slot"]:
        return (("return", "slot"), (), False)
    if a["fget_none"]:
        return (("raise", "AttributeError"), (), False)
    if a["cb_raises"]:
        if a["cb_attribute_error"] and not a["allow_attribute_error"]:
            return (("raise", "NestedAttributeError"), (), True)
        return (("raise", "?"), (), True)
    w = (("store", "slot"),) if (a["cache"] and a["has_objtype"]) else ()
    return (("return", "getter"), w, True)


def oracle_cp_set(a):
    if not a["fset_none"]:
        return (("raise", "?"), (), True) if a["cb_raises"] else (("return", "None"), (), True)
    if a["overridable"]:
        return (("return", "None"), (("store", "slot"),), False)
    return (("raise", "AttributeError"), (), False)


def oracle_cp_delete(a):
    if not a["fdel_none"]:
        return (("raise", "?"), (), True) if a["cb_raises"] else (("return", "None"), (), True)
    if a["slot"]:
        return (("return", "None"), (("delete", "slot"),), False)
    return (("raise", "AttributeError"), (), False)


CP_DOMAINS = {"__get__": ["slot", "slot_value_none", "fget_none", "cb_raises", "cb_attribute_error", "allow_attribute_error", "cache", "has_objtype"],
              "__set__": ["fset_none", "overridable", "cb_raises"],
              "__delete__": ["fdel_none", "slot", "cb_raises"]}
CP_ORACLES = {"__get__": oracle_cp_get, "__set__": oracle_cp_set, "__delete__": oracle_cp_delete}


def _check_main(ctx, rep: Report):
    rep.extra["exhaustive"] = True
    rep.rules["C12.T"] = "exhaustive decision tables of spec_property.__get__/__set__/__delete__ vs the protocol oracle; non-trivial = distinct (conditions, effects) rows"
    for meth in ("__get__", "__set__", "__delete__"):
        rows, fns = sp_worker(meth)
        rep.functions |= set(fns)
        rep.evaluations += len(rows)
        rows = [(a, _norm(out, meth)) for a, out in rows]
        for a, out in rows:
            rep.nontrivial.add((meth, tuple(sorted(a.items())), out))
        dom = DOMAINS[meth]
        extra = {k for a, _ in rows for k in a} - set(dom) - {"warn_on_override", "warn_is_bool", "has_name", "has_owner"}
        known_atoms = {x for d_ in DOMAINS.values() for x in d_} | {x for x in extra if x.startswith("spec_of:")}
        dom = dom + sorted(extra & known_atoms)      # a protocol atom consulted where the statement gives it no role
        extra = extra - known_atoms
        if extra:
            raise AnalysisError(f"C12.T {meth}: conditions outside the modelled protocol: {sorted(extra)}")
        oracle = ORACLES[meth]
        n, mism = dtable.compare([(a, out, None) for a, out in rows], lambda a: _norm(oracle(a), meth), dom)
        rep.oblige("C12.T", f"spec_property.{meth}", not mism, f"{n} assignments, {len(rows)} rows")
        rep.sample({"entry": f"spec_property.{meth}", "rows": [[a, repr(o)] for a, o in rows[:3]]})
        for msg in dtable.summarize(mism):
            rep.violate(Violation("C12.T", f"C12.T|spec_property.{meth}|{msg[:90]}", f"spec_property.{meth} departs from the override/cache/getter protocol: {msg}",
                                  "", f"spec_property.{meth}"))
    rep.rules["C12.CP"] = "same for classproperty with the slot _cache[key]"
    for meth in ("__get__", "__set__", "__delete__"):
        rows, fns = cp_worker(meth)
        rep.functions |= set(fns)
        rep.evaluations += len(rows)
        for a, out in rows:
            rep.nontrivial.add(("cp" + meth, tuple(sorted(a.items())), out))
        dom = CP_DOMAINS[meth]
        extra = {k for a, _ in rows for k in a} - set(dom) - {"warn_on_override", "warn_is_bool", "obj_is_class", "cache_per_subclass", "cps_given", "has_owner"}
        known_atoms = {x for d_ in CP_DOMAINS.values() for x in d_}
        dom = dom + sorted(extra & known_atoms)
        extra = extra - known_atoms
        if extra:
            raise AnalysisError(f"C12.CP {meth}: conditions outside the modelled protocol: {sorted(extra)}")
        n, mism = dtable.compare([(a, out, None) for a, out in rows], CP_ORACLES[meth], dom)
        rep.oblige("C12.CP", f"classproperty.{meth}", not mism, f"{n} assignments, {len(rows)} rows")
        rep.sample({"entry": f"classproperty.{meth}", "rows": [[a, repr(o)] for a, o in rows[:3]]})
        for msg in dtable.summarize(mism):
            rep.violate(Violation("C12.CP", f"C12.CP|classproperty.{meth}|{msg[:90]}", f"classproperty.{meth} departs from the protocol: {msg}", "", f"classproperty.{meth}"))
    # key normalisation: instance receivers -> class; per-subclass key (decided on the interpreted rows)
    all_keys = set()
    for meth in ("__set__", "__delete__"):
        bad = []
        decided = False
        for is_cls, cps, keys, raw_cb in CP_NORM.get(meth, []):
            decided = decided or is_cls is not None
            all_keys |= set(keys)
            if is_cls is not True and "obj" in keys:
                bad.append("the override/cache slot is keyed by the instance itself rather than by its class")
            if is_cls is not True and raw_cb:
                bad.append("the instance (not its class) is handed to the class-level setter/deleter")
        if not decided:
            bad.append("the receiver is never tested for being a class")
        rep.oblige("C12.CP", f"classproperty.{meth}[normalise receiver]", not bad, "; ".join(sorted(set(bad))))
        for b in sorted(set(bad)):
            rep.violate(Violation("C12.CP", f"C12.CP|normalise|{meth}|{b[:40]}", f"classproperty.{meth}: {b}", "", f"classproperty.{meth}"))
    ok = "None" in all_keys and any(k != "None" for k in all_keys)
    rep.oblige("C12.CP", "classproperty._cache_key", ok, f"keys observed: {sorted(all_keys)}")
    if not ok:
        rep.violate(Violation("C12.CP", "C12.CP|_cache_key", f"classproperty no longer keys the slot by class iff cache_per_subclass (keys observed: {sorted(all_keys)})", "", "classproperty._cache_key"))

    # ---- K
    rep.rules["C12.K"] = "getter()/setter()/deleter() forward fget,fset,fdel,overridable,cache and the extras"
    base = ctx.p.find_class("_spec_property_base")
    for meth, slot in (("getter", 0), ("setter", 1), ("deleter", 2)):
        c, m = ctx.p.lookup_method(base, meth)
        calls = [n for n in ast.walk(m[0].node) if isinstance(n, ast.Call) and ast.unparse(n.func) in ("type(self)", "self.__class__")]
        subst = {}
        if not calls:
            # the rebuild may be delegated to a private method of the class: follow it, binding its parameters
            for n in ast.walk(m[0].node):
                if isinstance(n, ast.Call) and isinstance(n.func, ast.Attribute) and ast.unparse(n.func.value) == "self" and n.func.attr.startswith("_"):
                    c2, m2 = ctx.p.lookup_method(base, n.func.attr)
                    if isinstance(m2, list):
                        inner = [x for x in ast.walk(m2[0].node) if isinstance(x, ast.Call) and ast.unparse(x.func) in ("type(self)", "self.__class__")]
                        if inner:
                            params = [a_.arg for a_ in m2[0].node.args.args][1:]
                            subst = {p_: ast.unparse(a_) for p_, a_ in zip(params, n.args)}
                            subst.update({k_.arg: ast.unparse(k_.value) for k_ in n.keywords if k_.arg})
                            calls = inner
        bad = []
        if not calls:
            bad.append("does not rebuild the descriptor with type(self)(...)")
        else:
            call = calls[0]
            pos = [subst.get(ast.unparse(a), ast.unparse(a)) for a in call.args]
            param = m[0].node.args.args[1].arg
            want = ["self.fget", "self.fset", "self.fdel"]
            want[slot] = param
            if pos[:3] != want:
                bad.append(f"positional callbacks {pos[:3]} (expected {want})")
            kws = {k.arg: ast.unparse(k.value) for k in call.keywords if k.arg}
            for opt in ("overridable", "cache"):
                if kws.get(opt) != f"self.{opt}":
                    bad.append(f"option `{opt}` is not forwarded")
            if not any(k.arg is None and "attrs" in ast.unparse(k.value) for k in call.keywords):
                bad.append("the extra attributes (invalidated_by / cache_per_subclass) are not forwarded")
        rep.oblige("C12.K", f"_spec_property_base.{meth}", not bad, "; ".join(bad))
        for b in bad:
            rep.violate(Violation("C12.K", f"C12.K|{meth}|{b[:50]}", f"_spec_property_base.{meth}: {b}", f"{m[0].module.relpath}:{m[0].node.lineno}", f"_spec_property_base.{meth}"))


def check(ctx, rep):
    from . import metarules, shared
    _check_main(ctx, rep)
    from . import metarules, r5rules
    r5rules.property_rules(ctx, rep, "C12.PROP", ("order", "key", "name"))
    shared.own_namespace_lookups(ctx, rep, "C12.NS")
    shared.unused_params(ctx, rep, "C12.PARAM", ["spec_classes.types.spec_property"])
    metarules.preparer_registration(ctx, rep, "C12.PREP")
    metarules.preparer_always(ctx, rep, "C12.PREPALL")
    shared.borrow(ctx, rep, "c11", {"C11.POST": "C12.FAILNOOP"})     # a failing assignment to a property changes nothing: dependants are invalidated only after the write
