"""C16 — decoration adds exactly the documented helpers and never replaces user code
(who may write to the decorated class, and under which guard; registry exhaustiveness and naming).

C16.REG  exhaustive decision table of register_method: the class attribute is written iff the name is
         not in the class's own __dict__ or starts with __spec_class
C16.WHO  every class-state write in the package is one of the enumerated sites, with its guard
C16.SET  registries: four scalar helpers on attr name, four element helpers per family on the
         singular name (sibling agreement), three top-level helpers; element family added iff the
         attribute is a collection; __spec_class_init__/repr/eq__ always registered
C16.INH  inherit_annotations = not (attrs or attrs_typed) or attrs_skip-was-given: exhaustive decision table
C16.PRIV private names are never managed (annotation scan filter; constructor arguments rejected)
C16.SING singular fallback <attr>_item; collision loop consults all attributes (inherited included)
"""
from __future__ import annotations

import ast

from ..model import AnalysisError
from ..report import Report, Violation
from ..runs import run_function
from ..values import ARG, CLS, FRESH, IMM, RECV, Const, Sym, vrepr
from . import boolfn, dtable
from .base import get_ctx, pmap, walk_own

META = {"assumptions": ["metaclass interactions are out of scope", "identity preservation is argued from who-may-write, not observed"],
        "trusted": ["sa abstract interpreter", "stdlib ast"]}

# (function suffix, target pattern) -> (reason, required guard substring or None)
WHO_ALLOWED = {
    ("spec_class.register_method", "setattr(spec_cls, name, method)"): ("the guarded registration (C16.REG)", None),
    ("spec_class.__call__", "spec_cls.__spec_class__"): ("lazy placeholder", "bootstrap_immediately"),
    ("spec_class.__call__", "spec_cls.__dataclass_fields__"): ("lazy placeholder", "bootstrap_immediately"),
    ("spec_class.__call__", "spec_cls.__new__"): ("install the bootstrapping __new__ wrapper", "bootstrap_immediately"),
    ("spec_class.__call__.<locals>.__new__", "spec_cls.__new__"): ("the wrapper restores the user's own __new__ or removes itself", "__spec_classes_new_wrapper__"),
    ("spec_class.bootstrap", "spec_cls.__annotations__"): ("create missing __annotations__", "hasattr(spec_cls, '__annotations__')"),
    ("spec_class.bootstrap", "spec_cls.__annotations__[attr]"): ("add annotations only for names not annotated by the user", "attr not in spec_cls.__annotations__"),
    ("spec_class.bootstrap", "spec_cls.__spec_class__"): ("publish metadata", None),
    ("spec_class.bootstrap", "spec_cls.__dataclass_fields__"): ("publish metadata", None),
    ("spec_class.build_attr_spec", "setattr(spec_cls, attr, ...)"): ("consume a declared Attr/Field: replace it by its default", "isinstance(attr_value, (Attr, dataclasses.Field))"),
    ("MethodDescriptor.__get__", "setattr(self.spec_cls or spec_cls, self.name, self.method)"): ("dissolution onto the registering class (C19.DIS)", "self.dissolve"),
}


def reg_worker(_):
    ctx = get_ctx()
    fi = ctx.p.find_function("spec_class.register_method")

    def conf(cfg):
        cfg.record_decisions = True
        cfg.fact_defaults.clear()
        cfg.user_may_raise = False
    it, outs = run_function(ctx.p, ctx.H, fi, [Sym(("spec_cls",), {CLS}), Sym(("name",), {IMM}), Sym(("method",), {FRESH})], {}, configure=conf)
    rows = []
    for o in outs:
        atoms = {}
        for k, v in o.state.decisions:
            r = repr(k)
            if k[0] == "in" and "__dict__" in r:
                atoms["in_class_dict"] = v
            elif k[0] == "pred" and k[1] == "startswith":
                atoms["spec_class_prefix"] = v
            elif k[0] == "hasattr" and "__set_name__" in r:
                atoms["has_set_name"] = v
            elif k[0] == "uraise":
                continue
            else:
                atoms["other:" + r[:70]] = v
        writes = [(e[1], e[2], e[4], e[5]) for e in o.state.trace if e[0] == "W" and e[2] == "spec_cls"]
        rows.append((atoms, o.kind, writes))
    return rows, sorted(it.functions_entered)


def _guards_of(fn_node, target_node):
    """Source of the tests of all If/IfExp statements enclosing target_node (with polarity)."""
    out = []

    def rec(node, conds):
        if node is target_node:
            out.extend(conds)
            return True
        if isinstance(node, ast.If):
            for child in node.body:
                if rec(child, conds + [ast.unparse(node.test)]):
                    return True
            for child in node.orelse:
                if rec(child, conds + ["not (" + ast.unparse(node.test) + ")"]):
                    return True
            return False
        for child in ast.iter_child_nodes(node):
            if isinstance(child, (ast.FunctionDef, ast.Lambda)) and child is not fn_node:
                continue
            if rec(child, conds):
                return True
        return False
    rec(fn_node, [])
    return out


def _guards_full(fn_node, target_node):
    """_guards_of plus the negated tests of earlier guard clauses in the same blocks (`if c: continue/return/raise`
    before the statement holding target_node contributes `not (c)`)."""
    def term(stmts):
        return bool(stmts) and isinstance(stmts[-1], (ast.Continue, ast.Return, ast.Raise, ast.Break))

    def contains(node):
        return any(x is target_node for x in ast.walk(node))

    def in_block(stmts, conds):
        acc = list(conds)
        for st in stmts:
            if contains(st):
                return in_stmt(st, acc)
            if isinstance(st, ast.If):
                if term(st.body) and not st.orelse:
                    acc.append("not (" + ast.unparse(st.test) + ")")
                elif st.orelse and term(st.orelse) and not term(st.body):
                    acc.append(ast.unparse(st.test))
        return None

    def in_stmt(st, conds):
        if st is target_node:
            return conds
        if isinstance(st, (ast.FunctionDef, ast.Lambda)) and st is not fn_node:
            return None
        if isinstance(st, ast.If):
            if any(contains(x) for x in st.body):
                return in_block(st.body, conds + [ast.unparse(st.test)])
            if any(contains(x) for x in st.orelse):
                return in_block(st.orelse, conds + ["not (" + ast.unparse(st.test) + ")"])
            return conds          # inside the test expression
        for field in ("body", "orelse", "finalbody"):
            blk = getattr(st, field, None)
            if isinstance(blk, list) and blk and isinstance(blk[0], ast.stmt) and any(contains(x) for x in blk):
                return in_block(blk, conds)
        for h in getattr(st, "handlers", []) or []:
            if any(contains(x) for x in h.body):
                return in_block(h.body, conds)
        # an expression inside a simple statement: IfExp polarity as in _guards_of
        extra = [g for g in _guards_of(st, target_node)] if not isinstance(st, (ast.FunctionDef,)) else []
        return conds + extra
    r = in_block(fn_node.body, []) if hasattr(fn_node, "body") and isinstance(fn_node.body, list) else None
    return r if r is not None else _guards_of(fn_node, target_node)


def implies_atom(conds, is_target):
    """Do the conditions (sources, conjoined) imply the target atom?  is_target(node) -> True/False polarity for a leaf
    that states the target / its negation, None for any other leaf (a free boolean)."""
    import itertools
    exprs = [ast.parse(c, mode="eval").body for c in conds]
    leaves = {}

    def collect(n):
        if isinstance(n, ast.BoolOp):
            for v in n.values:
                collect(v)
        elif isinstance(n, ast.UnaryOp) and isinstance(n.op, ast.Not):
            collect(n.operand)
        else:
            pol = is_target(n)
            leaves[ast.unparse(n)] = ("T", pol) if pol is not None else (ast.unparse(n), True)

    def ev(n, env):
        if isinstance(n, ast.BoolOp):
            vs = [ev(v, env) for v in n.values]
            return all(vs) if isinstance(n.op, ast.And) else any(vs)
        if isinstance(n, ast.UnaryOp) and isinstance(n.op, ast.Not):
            return not ev(n.operand, env)
        name, pol = leaves[ast.unparse(n)]
        return env[name] if pol else not env[name]
    for e in exprs:
        collect(e)
    names = sorted({v[0] for v in leaves.values()} | {"T"})
    if len(names) > 12:
        return False
    for vals in itertools.product([False, True], repeat=len(names)):
        env = dict(zip(names, vals))
        if all(ev(e, env) for e in exprs) and not env["T"]:
            return False
    return True


def _check_main(ctx, rep: Report):
    rep.extra["exhaustive"] = True
    # ---- REG
    rep.rules["C16.REG"] = "decision table of register_method"
    rows, fns = reg_worker(0)
    rep.functions |= set(fns)
    rep.evaluations += len(rows)
    bad = []
    for atoms, kind, writes in rows:
        rep.nontrivial.add((tuple(sorted(atoms.items())), kind, tuple(writes)))
        if kind != "ok":
            continue
        in_dict = atoms.get("in_class_dict")
        pref = atoms.get("spec_class_prefix")
        want = (in_dict is False) or bool(pref)
        if in_dict is None and pref is None:
            want = None
        wrote = any(w[0] == "setattr()" for w in writes)
        others = {k: v for k, v in atoms.items() if k.startswith("other:")}
        if want is not None and wrote != want:
            bad.append(f"name in class __dict__={in_dict}, __spec_class prefix={pref}" + (f", extra condition {list(others.items())[0]}" if others else "") + f": writes={wrote}, expected {want}")
        for w in writes:
            if w[2] != "{name}" or w[3] != "method":
                bad.append(f"registers `{w[3]}` under `{w[2]}` instead of the method under its name")
    if not any(a.get("in_class_dict") for a, *_ in rows):
        bad.append("the class's own __dict__ is never consulted: user definitions are overwritten")
    rep.oblige("C16.REG", "spec_class.register_method", not bad, "; ".join(sorted(set(bad))[:2]) or f"{len(rows)} rows")
    rep.sample({"entry": "register_method", "rows": [[a, k, w] for a, k, w in rows[:4]]})
    for b in sorted(set(bad)):
        rep.violate(Violation("C16.REG", f"C16.REG|{b[:90]}", f"spec_class.register_method: {b}", "", "spec_class.register_method"))

    # ---- WHO
    rep.rules["C16.WHO"] = "class-state writes (setattr/assign/del on spec_cls, __annotations__ stores) only at enumerated sites with their guards"
    nsites = 0
    from .base import static_callees
    callers = {}
    for fi in ctx.p.iter_functions():
        if not fi.is_lambda:
            for node, g in static_callees(ctx.p, fi):
                callers.setdefault(g.qualname, []).append((fi, node))

    def class_valued(fi):
        """Local names of fi that denote classes (flow-insensitive): conventional parameter names, parameters
        annotated type/Type, results of type(x) / x.__class__, loop variables over an MRO / __bases__."""
        out = set()
        a = fi.node.args
        for p_ in a.posonlyargs + a.args + a.kwonlyargs:
            ann = ast.unparse(p_.annotation) if p_.annotation is not None else ""
            if p_.arg in ("spec_cls", "cls", "owner", "klass", "objtype") or ann in ("type", "Type", "typing.Type") or ann.startswith("Type["):
                out.add(p_.arg)
        for n in walk_own(fi.node):
            if isinstance(n, ast.Assign) and len(n.targets) == 1 and isinstance(n.targets[0], ast.Name):
                v = ast.unparse(n.value)
                if (isinstance(n.value, ast.Call) and ast.unparse(n.value.func) == "type" and len(n.value.args) == 1) or v.endswith(".__class__"):
                    out.add(n.targets[0].id)
            if isinstance(n, ast.For) and isinstance(n.target, ast.Name):
                it = ast.unparse(n.iter)
                if ".mro()" in it or "__mro__" in it or "__bases__" in it:
                    out.add(n.target.id)
        return out

    for fi in ctx.p.iter_functions():
        if fi.is_lambda or not fi.module.name.startswith(ctx.p.package):
            continue
        short = fi.qualname.split(":")[-1].split("#")[0]
        cls_names = class_valued(fi)
        for n in walk_own(fi.node):
            tgt = None
            if isinstance(n, (ast.Assign, ast.Delete, ast.AugAssign)):
                tg = n.targets if not isinstance(n, ast.AugAssign) else [n.target]
                for t in tg:
                    s = ast.unparse(t)
                    if s.startswith("spec_cls.") or s.startswith("spec_cls["):
                        tgt = s
            elif isinstance(n, ast.Call) and ast.unparse(n.func) in ("setattr", "delattr") and n.args:
                a0 = ast.unparse(n.args[0])
                if a0 in cls_names or a0.startswith("self.spec_cls") or a0.startswith("self.owner"):
                    tgt = ast.unparse(n)
            if tgt is None:
                continue
            nsites += 1
            match = None
            for (fn_suffix, pat), (reason, guard) in WHO_ALLOWED.items():
                if short == fn_suffix or short.endswith("." + fn_suffix):
                    p0 = pat.replace("...", "")
                    if tgt == pat or tgt.startswith(p0.rstrip(")")) or (pat.endswith("]") and tgt == pat):
                        if pat == "spec_cls.__annotations__" and tgt != pat:
                            continue
                        match = (reason, guard)
                        break
            if match is None and short.split(".")[-1].startswith("_") and not short.split(".")[-1].startswith("__"):
                # a private helper extracted from an enumerated site: every caller must be that site, under its guard
                cs = callers.get(fi.qualname, [])
                entries = []
                for cfi, call in cs:
                    cshort = cfi.qualname.split(":")[-1].split("#")[0]
                    e = [(reason, guard) for (fn_suffix, pat), (reason, guard) in WHO_ALLOWED.items()
                         if (cshort == fn_suffix or cshort.endswith("." + fn_suffix)) and pat.split("(")[0] == tgt.split("(")[0]]
                    if not e:
                        entries = []
                        break
                    g_ = e[0][1]
                    if g_ and g_ not in " && ".join(_guards_of(cfi.node, call)):
                        entries = []
                        break
                    entries.append(e[0])
                if cs and entries:
                    match = (entries[0][0] + " (through a private helper)", None)
            ok = match is not None
            detail = ""
            if ok and match[1]:
                conds = " && ".join(_guards_of(fi.node, n))
                parent_conds = ""
                if fi.parent is not None:
                    parent_conds = ast.unparse(fi.parent.node)
                if match[1] not in conds and match[1] not in ast.unparse(fi.node) and match[1] not in parent_conds:
                    ok = False
                    detail = f"guard `{match[1]}` missing (enclosing conditions: {conds or 'none'})"
                elif match[1] not in conds and short.endswith("bootstrap"):
                    ok = False
                    detail = f"guard `{match[1]}` does not enclose the write (enclosing conditions: {conds or 'none'})"
            rep.oblige("C16.WHO", f"{short}:{tgt[:50]}", ok, detail)
            if not ok:
                rep.violate(Violation("C16.WHO", f"C16.WHO|{short}|{tgt[:60]}", f"{short} writes class state `{tgt}`" + (f": {detail}" if detail else " outside the enumerated registration sites: user-defined class members can be replaced"),
                                      f"{fi.module.relpath}:{n.lineno}", short))
    if nsites < 9:
        raise AnalysisError(f"C16.WHO: only {nsites} class-state writes found (floor 9)")

    # ---- SET
    rep.rules["C16.SET"] = "registry contents and naming"
    want = {"scalar": ({"with_", "update_", "transform_", "reset_"}, ".name"),
            "sequence": ({"with_", "update_", "transform_", "without_"}, ".item_name"),
            "mapping": ({"with_", "update_", "transform_", "without_"}, ".item_name"),
            "set": ({"with_", "update_", "transform_", "without_"}, ".item_name")}
    for fam, (prefixes, suffix) in want.items():
        got = set()
        bad = []
        for h in ctx.H[fam]:
            ne = h.name_expr or ""
            pre = ne.split("{")[0].strip("f'\"")
            got.add(pre)
            if suffix not in ne:
                bad.append(f"{h.id}: name `{ne}` is not built from attr_spec{suffix}")
        if got != prefixes:
            bad.append(f"helper prefixes {sorted(got)} (expected {sorted(prefixes)})")
        rep.oblige("C16.SET", f"registry:{fam}", not bad, "; ".join(bad))
        for b in bad:
            rep.violate(Violation("C16.SET", f"C16.SET|{fam}|{b[:60]}", f"{fam} helper registry: {b}", "", f"{fam.upper()}_METHODS"))
    top = {(h.name_expr or "").strip("'\"") for h in ctx.H["toplevel"]}
    ok = top == {"update", "transform", "reset"}
    rep.oblige("C16.SET", "registry:toplevel", ok, str(sorted(top)))
    if not ok:
        rep.violate(Violation("C16.SET", "C16.SET|toplevel", f"top-level helpers are {sorted(top)} (expected update, transform, reset)", "", "TOPLEVEL_METHODS"))
    gm = ctx.p.find_function("spec_class.get_methods_for_attribute")
    src = ast.unparse(gm.node)
    ok = "SCALAR_METHODS" in src and "is_collection" in src and "HELPER_METHODS" in src
    ifs = [n for n in walk_own(gm.node) if isinstance(n, ast.If)]
    ok = ok and len(ifs) == 1 and ast.unparse(ifs[0].test) == "attr_spec.is_collection" and "HELPER_METHODS" in ast.unparse(ifs[0])
    rep.oblige("C16.SET", "get_methods_for_attribute", ok)
    if not ok:
        rep.violate(Violation("C16.SET", "C16.SET|get_methods_for_attribute", "get_methods_for_attribute no longer returns the scalar helpers plus the element family iff the attribute is a collection", f"{gm.module.relpath}:{gm.node.lineno}", "spec_class.get_methods_for_attribute"))
    gs = ctx.p.find_function("spec_class.get_methods_for_spec_class")
    src = ast.unparse(gs.node)
    # the filter that decides which candidates are registered: keep iff backup-name or enabled (comprehension or loop form)
    def _prefix_value(node):
        if isinstance(node, ast.Constant):
            return node.value
        if isinstance(node, ast.Name):
            r = ctx.p.resolve_global(gs.module, node.id)
            if r and r[0] == "assign" and isinstance(r[1][1], ast.Constant):
                return r[1][1].value
        return None

    def _classify_keep(n):
        if isinstance(n, ast.Call) and isinstance(n.func, ast.Attribute) and n.func.attr == "startswith" and n.args and _prefix_value(n.args[0]) == "__spec_class":
            return ("backup", True)
        if isinstance(n, ast.Call) and isinstance(n.func, ast.Attribute) and n.func.attr == "get" and "methods_filter" in ast.unparse(n.func.value) \
                and (len(n.args) < 2 or ast.unparse(n.args[1]) == "False"):
            return ("enabled", True)
        return None
    cond = None
    for n in walk_own(gs.node):
        if isinstance(n, ast.DictComp) and n.generators and n.generators[0].ifs and "methods_filter" in ast.unparse(n):
            ifs = n.generators[0].ifs
            cond = ifs[0] if len(ifs) == 1 else ast.BoolOp(op=ast.And(), values=list(ifs))
        if cond is None and isinstance(n, ast.For) and "methods_filter" in ast.unparse(n):
            kname = ast.unparse(n.target.elts[0]) if isinstance(n.target, ast.Tuple) else ast.unparse(n.target)
            rc = boolfn.reach_condition(n.body, lambda s, kname=kname: isinstance(s, ast.Assign) and isinstance(s.targets[0], ast.Subscript)
                                        and ast.unparse(s.targets[0].slice) == kname)
            if rc is not None and rc is not True:
                cond = rc
    keep_ok = False
    if cond is not None:
        try:
            keep_ok = boolfn.table(cond, _classify_keep, ["backup", "enabled"]) == {(b_, e_): b_ or e_ for b_ in (False, True) for e_ in (False, True)}
        except ValueError:
            keep_ok = False
    ok = all(k in src for k in ("'__spec_class_init__'", "'__spec_class_repr__'", "'__spec_class_eq__'")) and keep_ok and "TOPLEVEL_METHODS" in src
    rep.oblige("C16.SET", "get_methods_for_spec_class", ok)
    if not ok:
        rep.violate(Violation("C16.SET", "C16.SET|get_methods_for_spec_class", "the generated constructor/repr/equality are no longer always reachable under their __spec_class_* names (or the top-level helpers are missing)", f"{gs.module.relpath}:{gs.node.lineno}", "spec_class.get_methods_for_spec_class"))

    # core methods registered under several names must be built functions, not lazy descriptors
    bad = []
    assigns = {n.targets[0].id: n.value for n in walk_own(gs.node)
               if isinstance(n, ast.Assign) and len(n.targets) == 1 and isinstance(n.targets[0], ast.Name)}
    ndual = 0
    for d in [n for n in walk_own(gs.node) if isinstance(n, ast.Dict)]:
        vals = [ast.unparse(v) for v in d.values if v is not None]
        for k, v in zip(d.keys, d.values):
            if k is None or not isinstance(k, ast.Constant) or not isinstance(v, ast.Name) or vals.count(v.id) < 2:
                continue
            ndual += 1
            src_expr = assigns.get(v.id)
            if src_expr is not None and not (isinstance(src_expr, ast.Attribute) and src_expr.attr == "method"):
                bad.append(f"`{k.value}` is registered as `{ast.unparse(src_expr)}` (a descriptor that dissolves under a single name) although the same object is registered under another name too")
    if ndual < 6:
        raise AnalysisError(f"C16.SET: {ndual} dual registrations found in get_methods_for_spec_class (floor 6)")
    rep.oblige("C16.SET", "dual registrations are built methods", not bad, "; ".join(bad[:2]))
    for b in bad[:2]:
        rep.violate(Violation("C16.SET", f"C16.SET|dual|{b[:40]}", f"get_methods_for_spec_class: {b}", f"{gs.module.relpath}:{gs.node.lineno}", "spec_class.get_methods_for_spec_class"))

    # ---- INH: explicit attrs switch annotation inheritance off unless attrs_skip was given (identity, not truthiness)
    rep.rules["C16.INH"] = "decision table of spec_class.__init__'s inherit_annotations over {attrs, attrs_typed, attrs_skip given, attrs_skip truthy}"
    init = ctx.p.find_function("spec_class.__init__")
    names = [a.arg for a in init.node.args.args[1:]] + [a.arg for a in init.node.args.kwonlyargs]

    def conf_inh(cfg):
        cfg.record_decisions = True
        cfg.user_may_raise = False
        cfg.loop_unroll = 1
    it, outs = run_function(ctx.p, ctx.H, init, [Sym(("self",), {FRESH})], {n: Sym((n,), {ARG}) for n in names}, configure=conf_inh)
    rep.functions |= set(it.functions_entered)
    rows = []
    for o in outs:
        if o.kind != "ok":
            continue
        ws = [e[5] for e in o.state.trace if e[0] == "W" and e[2] == "self" and e[4] == "inherit_annotations"]
        if not ws:
            continue
        atoms = {}
        for k, v in o.state.decisions:
            if k[0] == "truthy" and k[1] in (("attrs",), ("attrs_typed",), ("attrs_skip",)):
                atoms[{"attrs": "attrs", "attrs_typed": "attrs_typed", "attrs_skip": "skip_truthy"}[k[1][0]]] = v
            elif k[0] == "is" and k[1] == ("attrs_skip",) and k[2] == ("S", "MISSING"):
                atoms["skip_given"] = not v
        rows.append((atoms, ws[-1], None))
    if len(rows) < 4:
        raise AnalysisError(f"C16.INH: {len(rows)} paths set inherit_annotations (floor 4)")
    rep.evaluations += len(rows)
    n, mism = dtable.compare(rows, lambda a: str((not (a["attrs"] or a["attrs_typed"])) or a["skip_given"]),
                             ["attrs", "attrs_typed", "skip_given", "skip_truthy"], constraint=lambda a: a["skip_given"] or not a["skip_truthy"])
    rep.oblige("C16.INH", "spec_class.__init__", not mism, f"{n} assignments")
    for msg in dtable.summarize(mism):
        rep.violate(Violation("C16.INH", f"C16.INH|{msg[:60]}", f"spec_class.__init__: inherit_annotations departs from `not (attrs or attrs_typed) or attrs_skip given`: {msg} (an empty attrs_skip must still mean 'add to the annotated attributes')", f"{init.module.relpath}:{init.node.lineno}", "spec_class.__init__"))

    # ---- PRIV
    rep.rules["C16.PRIV"] = "private names filtered at both sources"
    bs = ctx.p.find_function("spec_class.bootstrap")
    ok1 = any(isinstance(n, ast.GeneratorExp) and "__annotations__" in ast.unparse(n) and "not attr.startswith('_')" in ast.unparse(n) for n in ast.walk(bs.node))
    init = ctx.p.find_function("spec_class.__init__")
    s2 = ast.unparse(init.node)
    ok2 = "startswith('_')" in s2 and "raise ValueError" in s2
    rep.oblige("C16.PRIV", "annotation scan", ok1)
    rep.oblige("C16.PRIV", "constructor attrs", ok2)
    if not ok1:
        rep.violate(Violation("C16.PRIV", "C16.PRIV|scan", "bootstrap no longer skips private (underscore) annotations: private attributes become managed", f"{bs.module.relpath}:{bs.node.lineno}", "spec_class.bootstrap"))
    if not ok2:
        rep.violate(Violation("C16.PRIV", "C16.PRIV|ctor", "spec_class(attrs=...) no longer rejects private attribute names", f"{init.module.relpath}:{init.node.lineno}", "spec_class.__init__"))

    # ---- SING
    rep.rules["C16.SING"] = "singular fallback and collision loop"
    gsf = ctx.p.find_function("get_singular_form")
    s = ast.unparse(gsf.node)
    ok = "_item" in s and "not singular or singular == attr_name" in s
    rep.oblige("C16.SING", "get_singular_form", ok)
    if not ok:
        rep.violate(Violation("C16.SING", "C16.SING|fallback", "get_singular_form no longer falls back to <attr>_item when there is no distinct singular", f"{gsf.module.relpath}:{gsf.node.lineno}", "get_singular_form"))
    loops = [n for n in walk_own(bs.node) if isinstance(n, ast.For) and "item_name" in ast.unparse(n) and "_item" in ast.unparse(n)]
    bad = []
    if not loops:
        bad.append("collision loop not found")
    else:
        loop = loops[0]
        it_src = ast.unparse(loop.iter)
        while it_src.startswith(("list(", "tuple(", "sorted(")) and it_src.endswith(")"):       # a snapshot of the same items
            it_src = it_src[it_src.index("(") + 1:-1]
        if it_src not in ("metadata.attrs.items()", "metadata.attrs"):
            bad.append(f"iterates `{ast.unparse(loop.iter)}` instead of all attributes (metadata.attrs)")
        # the fallback name is written on a specification this class owns, or on a copy of an inherited one
        renames = [n for n in ast.walk(loop) if isinstance(n, ast.Assign) and isinstance(n.targets[0], ast.Attribute) and n.targets[0].attr == "item_name"]
        for rn in renames:
            guarded_copy = any(isinstance(x, ast.If) and ".owner" in ast.unparse(x.test) and "copy" in ast.unparse(x) and x.lineno < rn.lineno
                               for x in ast.walk(loop))
            if not guarded_copy:
                bad.append("the fallback name is written onto the attribute specification in place: an inherited specification is shared with the parent class, whose metadata (and the names its element helpers dissolve under) change when a subclass is decorated")
        for n in ast.walk(loop):
            if isinstance(n, ast.Compare) and isinstance(n.ops[0], (ast.In, ast.NotIn)):
                cont = ast.unparse(n.comparators[0])
                if cont != "metadata.attrs":
                    bad.append(f"looks the singular / fallback name up in `{cont}` instead of all attributes (inherited ones are missed and their helpers shadowed)")
        if "raise RuntimeError" not in ast.unparse(loop):
            bad.append("no error when the fallback name is taken as well")
        tests = [n for n in ast.walk(loop) if isinstance(n, ast.If)]
        if tests and "is_collection" not in ast.unparse(tests[0].test):
            bad.append("the collision test is not restricted to collection attributes")
    rep.oblige("C16.SING", "bootstrap collision loop", not bad, "; ".join(bad))
    for b in sorted(set(bad)):
        rep.violate(Violation("C16.SING", f"C16.SING|{b[:70]}", f"spec_class.bootstrap: {b}", f"{bs.module.relpath}:{loops[0].lineno}" if loops else "", "spec_class.bootstrap"))


def check(ctx, rep):
    from . import metarules, shared
    _check_main(ctx, rep)
    from . import metarules, r5rules
    r5rules.collection_kinds(ctx, rep, "C16.KINDS")
    r5rules.new_wrapper_order(ctx, rep, "C16.NEW")
    r5rules.refresh_rules(ctx, rep, "C16.REFRESH")
    metarules.attr_spec_fresh(ctx, rep, "C16.SPEC")
    metarules.singular_cache(ctx, rep, "C16.CACHE")
    shared.own_namespace_lookups(ctx, rep, "C16.NS")
    shared.unused_params(ctx, rep, "C16.PARAM", ["spec_classes.spec_class", "spec_classes.utils.naming"])
    metarules.for_class_rule(ctx, rep, "C16.META", ("attrs",))
    metarules.unmanaged_key_no_helpers(ctx, rep, "C16.SET")
