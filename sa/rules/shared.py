"""Rules shared by several properties (each property calls them under its own rule id, restricted to the
modules it is anchored in)."""
from __future__ import annotations

import ast

from ..model import AnalysisError
from ..report import Report, Violation
from .base import walk_own

# parameters that are legitimately never read: (function qualname suffix, parameter) -> reason
UNUSED_OK = {
    ("classproperty.__init__", "attrs"): "accepted for signature compatibility with spec_property; class properties have no instance attrs",
    ("_SpecClassMetadataPlaceholder.__get__", "instance"): "descriptor protocol",
    ("Alias.__get__", "owner"): "descriptor protocol",
}
PROTOCOL_PARAMS = {"__get__": {"instance", "owner", "objtype", "obj"}, "__exit__": {"exc_type", "exc_value", "exc", "tb", "traceback"},
                   "__set_name__": {"owner", "name"}, "__deepcopy__": {"memo"}, "__init_subclass__": set(), "__class_getitem__": set()}


def _trivial_body(fnode):
    body = [s for s in fnode.body if not (isinstance(s, ast.Expr) and isinstance(s.value, ast.Constant))]
    return all(isinstance(s, (ast.Pass, ast.Raise)) or (isinstance(s, ast.Return) and (s.value is None or isinstance(s.value, ast.Constant)))
               for s in body)


def unused_params(ctx, rep: Report, rule: str, module_prefixes, floor: int = 5):
    """Every named parameter of every function in the given modules is read by its body (a parameter that is
    accepted and silently dropped - the classic lost-keyword slip - makes an advertised option a no-op).
    Exempt: self/cls, *args/**kwargs catch-alls, abstract/placeholder bodies, protocol-mandated parameters and
    the enumerated table above."""
    rep.rules[rule] = "every named parameter is read by the function that accepts it (lost-keyword rule)"
    n = 0
    for fi in ctx.p.iter_functions():
        if fi.is_lambda or not any(fi.module.name == m or fi.module.name.startswith(m + ".") for m in module_prefixes):
            continue
        if _trivial_body(fi.node):
            continue
        short = fi.qualname.split(":")[-1].split("#")[0]
        a = fi.node.args
        names = [x.arg for x in a.posonlyargs + a.args + a.kwonlyargs]
        loaded = {x.id for x in ast.walk(fi.node) if isinstance(x, ast.Name) and isinstance(x.ctx, (ast.Load, ast.Del))}
        proto = PROTOCOL_PARAMS.get(fi.node.name, set())
        for p_ in names:
            if p_ in ("self", "cls") or p_ in proto or p_.startswith("_unused"):
                continue
            n += 1
            ok = p_ in loaded or any(short.endswith(k[0]) and k[1] == p_ for k in UNUSED_OK)
            if not ok:
                rep.oblige(rule, f"{short}:{p_}", False)
                rep.violate(Violation(rule, f"{rule}|{short}|{p_}", f"{short} accepts the parameter `{p_}` but never reads it: the option is silently dropped",
                                      f"{fi.module.relpath}:{fi.node.lineno}", short))
    rep.oblige(rule, f"{n} parameters read", True)
    if n < floor:
        raise AnalysisError(f"{rule}: only {n} parameters inspected (floor {floor})")


# ---- own-namespace (non-inheriting) lookups on classes -------------------------------------------
# (function suffix, what is looked up) -> why "defined by this very class" is what is meant there
OWN_NS_ALLOWED = {
    ("Attr.lookup_default_value", "self.name"): "MRO walk: each class is asked for its own override",
    ("spec_class.__call__.<locals>.bootstrapper", "'__spec_class__'"): "re-check of this class's own placeholder",
    ("spec_class.__call__", "'__new__'"): "only a __new__ defined by the class itself is restored",
    ("spec_class.bootstrap", "*"): "annotation namespace of the class body",
    ("spec_class.bootstrap", "attr"): "the subclass body re-defines the attribute",
    ("spec_class.register_method", "name"): "never replace what the class body defines (C16.REG)",
    ("SpecClassMetadata.for_class", "'__spec_class__'"): "nearest ancestor carrying its own metadata",
    ("SpecClassMetadata.invalidation_map", "*"): "members declared by each class of the MRO",
    ("InitMethod.init", "'__init__'"): "a class that only inherits its constructor has nothing of its own to run",
}


def own_namespace_lookups(ctx, rep: Report, rule: str):
    """`X.__dict__` / `vars(X)` on a *class* does not see inherited members.  Class-level protocol lookups
    (spec-class recognition, preparers, hooks) must inherit; own-namespace access on a class-valued expression is
    confined to the enumerated (function, looked-up key) pairs, each of which means 'defined by this very class'."""
    from .base import class_valued
    rep.rules[rule] = "own-namespace (non-inheriting) class lookups only at enumerated sites"
    n = 0
    for fi in ctx.p.iter_functions():
        if fi.is_lambda or not fi.module.name.startswith(ctx.p.package):
            continue
        short = fi.qualname.split(":")[-1].split("#")[0]
        owner_fi = fi
        cls_names = set(class_valued(fi))
        while owner_fi.parent is not None:          # closures see the class-valued names of their enclosing functions
            owner_fi = owner_fi.parent
            cls_names |= class_valued(owner_fi)
        parents = {}
        for p_ in ast.walk(fi.node):
            for ch in ast.iter_child_nodes(p_):
                parents[id(ch)] = p_
        for node in walk_own(fi.node):
            base = None
            if isinstance(node, ast.Attribute) and node.attr == "__dict__":
                base = node.value
            elif isinstance(node, ast.Call) and isinstance(node.func, ast.Name) and node.func.id == "vars" and node.args:
                base = node.args[0]
            elif isinstance(node, ast.Call) and isinstance(node.func, ast.Name) and node.func.id == "getattr" and len(node.args) >= 2 \
                    and isinstance(node.args[1], ast.Constant) and node.args[1].value == "__dict__":
                base = node.args[0]
            if base is None:
                continue
            bsrc = ast.unparse(base)
            is_cls = (isinstance(base, ast.Name) and base.id in cls_names) or bsrc.endswith(".__class__") or bsrc.startswith("type(") \
                or bsrc in ("self.spec_cls", "self.owner")
            if not is_cls:
                continue     # instance dictionaries
            n += 1
            par = parents.get(id(node))
            key = "*"
            if isinstance(par, ast.Compare) and isinstance(par.ops[0], (ast.In, ast.NotIn)) and par.comparators[0] is node:
                key = ast.unparse(par.left)
            elif isinstance(par, ast.Attribute) and par.attr in ("get", "pop", "__getitem__", "__contains__"):
                call = parents.get(id(par))
                if isinstance(call, ast.Call) and call.args:
                    key = ast.unparse(call.args[0])
            elif isinstance(par, ast.Subscript) and par.value is node:
                key = ast.unparse(par.slice)
            from .base import site_allowed
            ok = site_allowed(ctx, short, lambda s_, key=key: any((s_ == k[0] or s_.endswith("." + k[0])) and k[1] == key for k in OWN_NS_ALLOWED))
            frag = f"{key} in own namespace of {bsrc}" if key != "*" else f"own namespace of {bsrc}"
            rep.oblige(rule, f"{short}:{frag[:50]}", ok)
            if not ok:
                rep.violate(Violation(rule, f"{rule}|{short}|{key}",
                                      f"{short} looks `{key}` up in the own namespace of the class `{bsrc}` (__dict__ / vars): members inherited from a parent / mixin (or a class that only inherits its spec-class metadata) are not seen",
                                      f"{fi.module.relpath}:{node.lineno}", short))
    if n < 6:
        raise AnalysisError(f"{rule}: only {n} own-namespace lookups on classes found (floor 6)")


def mutable_defaults(ctx, rep: Report, rule: str, module_prefixes=None):
    """No function of the package has a mutable object (list / dict / set display or constructor call) as a parameter
    default: it is created once and shared by every call, so state written into it (a visited set, an accumulator)
    leaks from one operation - and one instance - into the next."""
    rep.rules[rule] = "no mutable parameter defaults (state shared across calls)"
    n = 0
    for fi in ctx.p.iter_functions():
        if fi.is_lambda or not fi.module.name.startswith(ctx.p.package):
            continue
        if module_prefixes and not any(fi.module.name == m or fi.module.name.startswith(m + ".") for m in module_prefixes):
            continue
        a = fi.node.args
        short = fi.qualname.split(":")[-1].split("#")[0]
        pos = a.posonlyargs + a.args
        pairs = list(zip(pos[len(pos) - len(a.defaults):], a.defaults)) + [(p_, d) for p_, d in zip(a.kwonlyargs, a.kw_defaults) if d is not None]
        for p_, d in pairs:
            n += 1
            mutable = isinstance(d, (ast.List, ast.Dict, ast.Set, ast.ListComp, ast.DictComp, ast.SetComp)) or \
                (isinstance(d, ast.Call) and isinstance(d.func, ast.Name) and d.func.id in ("list", "dict", "set", "defaultdict", "OrderedDict", "deque"))
            if mutable:
                rep.oblige(rule, f"{short}:{p_.arg}", False)
                rep.violate(Violation(rule, f"{rule}|{short}|{p_.arg}", f"{short}: parameter `{p_.arg}` defaults to the mutable object `{ast.unparse(d)}`, created once and shared by all calls: what one call records in it is still there for the next",
                                      f"{fi.module.relpath}:{fi.node.lineno}", short))
    rep.oblige(rule, f"{n} parameter defaults inspected", True)
    if n < 20:
        raise AnalysisError(f"{rule}: only {n} parameter defaults found (floor 20)")


def borrow(ctx, rep: Report, module_name: str, rules_map: dict):
    """Run another property's rule module and take over the verdicts of the rules named in rules_map
    ({their rule id: our rule id}): a property whose statement rests on a mechanism that is decided elsewhere
    re-states that obligation under its own id instead of silently assuming it."""
    import importlib
    mod = importlib.import_module(f"sa.rules.{module_name}")
    sub = Report(rep.pid, rep.tier)
    (getattr(mod, "_check_main", None) or mod.check)(ctx, sub)
    rep.functions |= sub.functions
    rep.evaluations += sub.evaluations
    n = 0
    for o in sub.obligations:
        if o["rule"] in rules_map:
            n += 1
            rep.oblige(rules_map[o["rule"]], o["instance"], o["ok"], o["detail"])
    for theirs, ours in rules_map.items():
        rep.rules[ours] = f"{sub.rules.get(theirs, theirs)} (decided by the rules of {theirs})"
    for v in sub.violations:
        if v.rule in rules_map:
            ours = rules_map[v.rule]
            rep.violate(Violation(ours, ours + v.key[len(v.rule):] if v.key.startswith(v.rule) else f"{ours}|{v.key}", v.what, v.site, v.function, v.path, v.entry))
    if n == 0:
        raise AnalysisError(f"borrow: module {module_name} produced no obligation for {sorted(rules_map)}")
