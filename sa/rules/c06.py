"""C06 — element helpers edit list/dict/set attributes like the plain container operation
(structural clauses; content/order equality with the container model is NOT decided).

C06.TRUTH no truthiness test on an element, key or index (a legitimate falsy element takes the wrong
          branch) anywhere on the element-helper paths; C06.EMPTY: extractors/inserters never test the
          truthiness of the container (an empty container is not a missing one)
C06.IDX   decision tables of the three inserters: (index is None, insert) -> append / insert(index, .) /
          [index]= with the extractor's index unchanged; mapping: [key]=; set: discard(old) iff an old
          element was addressed, then add(new); by_index tri-state of the sequence extractor
C06.INS   _mutate_collection: every normal path performs the insertion (never silently skipped);
          container created before the extractor runs
C06.ERR   extractors raise IndexError / ValueError / KeyError for a missing target when asked to;
          _mutate_collection re-raises unchanged; transform/without always ask
C06.KEY   prepare_item: item preparer first; bare key promoted iff key type exists, item given, item
          does not have the item type and has the key type
"""
from __future__ import annotations

import ast

from ..model import AnalysisError
from ..report import Report, Violation
from ..runs import describe_path, run_function
from ..scenarios import MUTATOR_OF, recv_sym
from ..state import State
from ..values import ARG, CLS, FRESH, IMM, RECV, Const, Event, Inst, Ref, Sentinel, Sym, vrepr
from . import provrun
from .base import get_ctx, pmap, walk_own

META = {
    "assumptions": ["list/dict/set primitives behave as documented by Python", "value-level contents and ordering are not decided"],
    "trusted": ["sa abstract interpreter", "stdlib ast"],
}

ELEMENT_PARAMS = {"_item", "_key", "_value", "_index", "_value_or_index", "_new_item"}
FAMS = ("sequence", "mapping", "set")


def _mutator_state(ctx, fam, collection=None, extra=None):
    ci = ctx.p.find_class(MUTATOR_OF[fam])
    st = State()
    fields = {"attr_spec": Sym(("attr_spec",), {CLS}), "instance": recv_sym(),
              "collection": collection if collection is not None else Sym(("coll",), {FRESH}, tags={"nonsentinel"})}
    fields.update(extra or {})
    addr = st.alloc("mutator", Inst(ci, fields, FRESH))
    return ci, st, Ref(addr), addr


def _call_args(fi, first, **named):
    """(args, kwargs) passing `first` as the first parameter after self (whatever it is called) and the rest by name
    when the function has a parameter of that name (interpretation must not depend on private parameter names)."""
    names = [a.arg for a in fi.node.args.args][1:] + [a.arg for a in fi.node.args.kwonlyargs]
    kw = {k: v for k, v in named.items() if k in names}
    missing = [k for k in named if k not in names]
    if missing:
        raise AnalysisError(f"{fi.qualname}: no parameter named {missing}")
    return [first], kw


VALUE_PARAMS = {"_value", "_item", "_new_item", "_new_value", "value", "item", "new_item"}


# ------------------------------------------------------------------ TRUTH
def truth_worker(task):
    hid, shape, fam = task
    ctx = get_ctx()
    found = []

    def conf(cfg):
        cfg.record_truth_tests = True
    from ..runs import run_helper
    h = ctx.helpers[hid]

    def conf2(cfg):
        conf(cfg)
        cfg.loop_unroll = 1
        cfg.event_filter = provrun.set_reducer(lambda ev: None)
    it, outs = run_helper(ctx.p, ctx.H, h, inplace=False, shape=shape, configure=conf2, cache=False)
    for tok, prov, site, via in it.truth_tests:
        kind = None
        root = tok[0]
        t = [x for x in tok if x not in ("copy", "shallowcopy")]
        if root in ELEMENT_PARAMS:
            kind = "element/key/index argument"
        elif len(t) >= 3 and t[0] == "self" and str(t[1]).startswith(".{") and any(str(x).startswith("[") for x in t[2:]):
            kind = "element read from the container"
        elif any(str(x).startswith(".index(") for x in tok):
            kind = "position returned by index()"
        elif len(t) == 2 and t[0] == "self" and str(t[1]).startswith(".{"):
            fn, stmt = ctx.p.stmt_at(site)
            if any(k in fn for k in ("_extractor", "_inserter", "remove_item", "_mutate_collection")):
                kind = "container (EMPTY)"
        if kind:
            found.append((kind, "/".join(map(str, tok)), site))
    for tok, prov, site, via in it.none_tests:
        if tok[0] in VALUE_PARAMS and len(tok) == 1:
            fn, stmt = ctx.p.stmt_at(site)
            if "Mutator" in fn:      # (mutate_value legitimately refuses to set attributes on None)
                found.append(("element/value argument compared with None (None is a value like any other)", "/".join(map(str, tok)), site))
    return {"task": task, "found": sorted(set(found)), "paths": len(outs), "functions": sorted(it.functions_entered),
            "ntests": len(it.truth_tests)}


# -------------------------------------------------------------------- IDX
def idx_worker(fam):
    ctx = get_ctx()
    ci, st, selfref, addr = _mutator_state(ctx, fam)
    c, m = ctx.p.lookup_method(ci, "_inserter")
    fi = m[0]
    params = [a.arg for a in fi.node.args.args][1:]
    kw = {}
    for p in params:
        kw[p] = Sym((p,), {ARG}, tags={"nonsentinel"} if p == "item" else ())

    def conf(cfg):
        cfg.record_decisions = True
        cfg.fact_defaults.insert(0, lambda k: True if k[0] == "check" else None)
    it, outs = run_function(ctx.p, ctx.H, fi, [selfref], kw, configure=conf, state=st)
    rows = []
    for o in outs:
        if o.kind != "ok":
            continue
        dec = {}
        for k, v in o.state.decisions:
            if k[0] == "is" and k[1] == ("index",):
                dec["index is " + str(k[2][-1])] = v
            elif k[0] == "truthy":
                dec["truthy " + "/".join(map(str, k[1]))] = v
        ws = [(e[1], e[4], e[5]) for e in o.state.trace if e[0] == "W" and e[2].startswith("coll")]
        rows.append({"dec": dec, "writes": ws})
    return {"fam": fam, "rows": rows, "functions": sorted(it.functions_entered)}


def byindex_worker(mode):
    ctx = get_ctx()
    ci, st, selfref, addr = _mutator_state(ctx, "sequence")
    c, m = ctx.p.lookup_method(ci, "_extractor")
    named = {"raise_if_missing": Const(True)}
    if mode != "default":
        named["by_index"] = Const(mode == "true")
    pos, kw = _call_args(m[0], Sym(("voi",), {ARG}, tags={"nonsentinel"}), **named)

    def conf(cfg):
        cfg.emit_reads = True
        cfg.emit_chk = True
    it, outs = run_function(ctx.p, ctx.H, m[0], [selfref] + pos, kw, configure=conf, state=st)
    reads, chks = set(), set()
    for o in outs:
        for e in o.state.trace:
            if e[0] == "RD" and e[2] == "coll":
                reads.add(e[1])
            if e[0] == "CHK":
                chks.add(e[2])
    return {"mode": mode, "reads": sorted(reads), "checks": sorted(chks)}


# -------------------------------------------------------------------- INS
def ins_worker(fam):
    ctx = get_ctx()
    for collection in (None, Sentinel("MISSING", False)):
        pass
    ci, st, selfref, addr = _mutator_state(ctx, fam, collection=Sym(("coll",), {FRESH}))
    fi = ctx.p.find_function("CollectionAttrMutator._mutate_collection")
    kw = {"value_or_index": Sym(("voi",), {ARG}), "extractor": Sym(("extractor",), {IMM}),
          "inserter": Sym(("inserter",), {IMM}), "new_item": Sym(("new_item",), {ARG}),
          "attrs": Sym(("attrs",), {ARG}), "transform": Sym(("transform",), {ARG}),
          "replace": Sym(("replace",), {ARG})}

    def conf(cfg):
        cfg.loop_unroll = 1

        def red(trace, ev):
            if ev[0] == "U" and ev[1] in ("extractor", "inserter"):
                n = Event(("U", ev[1]))
            elif ev[0] == "W" and ev[4] == "collection":
                n = Event(("NEWCOLL",))
            elif ev[0] == "RR":
                n = Event(("RERAISE",))
            elif ev[0] == "R":
                n = Event(("RAISE", ev[1]))
            else:
                return trace
            return trace if n in trace else trace + (n,)
        red.is_reducer = True
        cfg.event_filter = red
    it, outs = run_function(ctx.p, ctx.H, fi, [selfref], kw, configure=conf, state=st)
    rows = []
    for o in outs:
        inst = o.state.heap.get(addr)
        rows.append({"kind": o.kind, "trace": [tuple(e) for e in o.state.trace],
                     "exc": o.value.cls if o.kind == "exc" else None,
                     "collection": vrepr(inst.fields.get("collection")) if inst else None})
    return {"fam": fam, "rows": rows, "functions": sorted(it.functions_entered)}


# -------------------------------------------------------------------- ERR
EXPECTED_EXC = {"sequence": {"IndexError", "ValueError"}, "mapping": {"KeyError"}, "set": {"ValueError"}}


def err_worker(fam):
    ctx = get_ctx()
    res = {}
    for rim in (True, False):
        ci, st, selfref, addr = _mutator_state(ctx, fam)
        c, m = ctx.p.lookup_method(ci, "_extractor")
        pos, kw = _call_args(m[0], Sym(("voi",), {ARG}, tags={"nonsentinel"}), raise_if_missing=Const(rim))
        it, outs = run_function(ctx.p, ctx.H, m[0], [selfref] + pos, kw, state=st)
        res[rim] = sorted({o.value.cls for o in outs if o.kind == "exc" and any(e[0] == "R" for e in o.state.trace)})
        res[f"ok{rim}"] = sum(1 for o in outs if o.kind == "ok")
    return {"fam": fam, "res": res}


# -------------------------------------------------------------------- KEY
def key_worker(_):
    ctx = get_ctx()
    ci, st, selfref, addr = _mutator_state(ctx, "sequence")
    c, m = ctx.p.lookup_method(ci, "prepare_item")

    def conf(cfg):
        cfg.record_decisions = True
        cfg.user_may_raise = False
        cfg.constructor_attrs = cfg.constructor_attrs | {".item_spec_type"}
    it, outs = run_function(ctx.p, ctx.H, m[0], [selfref, Sym(("new_item",), {ARG})], {}, configure=conf, state=st)
    rows = []
    for o in outs:
        if o.kind != "ok":
            continue
        dec = {}
        for k, v in o.state.decisions:
            if k[0] == "truthy":
                dec["truthy:" + str(k[1][-1])] = v
            elif k[0] == "check":
                dec["check:" + k[2].split("/")[-1] + ":" + ("prepared" if "call" in k[1] else "raw")] = v
            elif k[0] == "is":
                dec["is:" + str(k[2][-1])] = v
        us = [(e[1].split("/")[-1], e[2]) for e in o.state.trace if e[0] == "U"]
        rows.append({"dec": dec, "calls": us, "ret": vrepr(o.value)})
    return {"rows": rows}


def inserter_tables_rule(ctx, rep, rule="C06.IDX"):
    rep.rules[rule] = "decision tables of the inserters and by_index tri-state"
    for r in pmap(idx_worker, list(FAMS)):
        rep.functions |= set(r["functions"])
        rep.evaluations += len(r["rows"])
        bad = []
        fam = r["fam"]
        if not r["rows"]:
            raise AnalysisError(f"{rule}: no normal path in {fam} _inserter")
        for row in r["rows"]:
            d, ws = row["dec"], row["writes"]
            hows = [w[0] for w in ws]
            if fam == "sequence":
                if len(ws) != 1:
                    bad.append(f"{len(ws)} container writes on one path {hows}")
                    continue
                how, key, val = ws[0]
                if val != "item":
                    bad.append(f"stores `{val}` instead of the item")
                isnone = d.get("index is None")
                ins = d.get("truthy insert")
                want = "method:append" if isnone else ("method:insert" if ins else "setitem")
                if isnone is None:
                    bad.append("does not distinguish `index is None` (append) from a position")
                elif how != want:
                    bad.append(f"index is None={isnone}, insert={ins}: performs {how}, expected {want}")
                if how == "setitem" and key != "index":
                    bad.append(f"assigns position `{key}` instead of the extractor's index")
                if how == "method:insert" and key != "index,item":
                    bad.append(f"insert({key}) instead of insert(index, item)")
                if how == "method:append" and key != "item":
                    bad.append(f"append({key}) instead of append(item)")
            elif fam == "mapping":
                if hows != ["setitem"] or ws[0][1] != "index" or ws[0][2] != "item":
                    bad.append(f"expected exactly collection[index] = item, got {ws}")
            else:
                if not hows or hows[-1] != "method:add" or ws[-1][2] != "item":
                    bad.append(f"expected ... add(item) last, got {ws}")
                disc = [w for w in ws if w[0] in ("method:discard", "method:remove")]
                ismissing = d.get("index is MISSING")
                repl = d.get("truthy replace", True)
                want_disc = (ismissing is False) and repl
                if ismissing is None and "index is MISSING" not in d:
                    truthy_idx = [k for k in d if k.startswith("truthy index")]
                    if truthy_idx:
                        bad.append("uses the truthiness of the old element to decide whether to replace it")
                if bool(disc) != bool(want_disc) and ismissing is not None:
                    bad.append(f"old element addressed={not ismissing}, replace={repl}: discard performed={bool(disc)}")
                for w in disc:
                    if w[2] != "index":
                        bad.append(f"discards `{w[2]}` instead of the addressed element")
        rep.oblige(rule, f"{MUTATOR_OF[fam]}._inserter", not bad, "; ".join(sorted(set(bad))[:2]) or f"{len(r['rows'])} rows")
        rep.sample({"entry": f"{MUTATOR_OF[fam]}._inserter", "rows": r["rows"][:4]})
        for row in r["rows"]:
            rep.nontrivial.add((fam, tuple(sorted(row["dec"].items())), tuple(row["writes"])))
        for b in sorted(set(bad)):
            rep.violate(Violation(rule, f"{rule}|{fam}|{b[:70]}", f"{MUTATOR_OF[fam]}._inserter: {b}", "", f"{MUTATOR_OF[fam]}._inserter"))


def _check_main(ctx, rep: Report):
    # TRUTH / EMPTY
    rep.rules["C06.TRUTH"] = "truthiness tests whose operand is an element/key/index (argument, read from the container, or index() result); non-trivial = a recorded truthiness test on the element-helper paths"
    elem_tasks = [t for t in provrun.helper_tasks(ctx, families=False) if ctx.helpers[t[0]].family in FAMS]
    total_tests = 0
    for r in pmap(truth_worker, elem_tasks):
        rep.functions |= set(r["functions"])
        rep.evaluations += r["paths"]
        total_tests += r["ntests"]
        hid = r["task"][0]
        rep.oblige("C06.TRUTH", f"{hid}[{r['task'][1]}]", not r["found"], f"{r['ntests']} truthiness tests seen")
        for kind, tok, site in r["found"]:
            fn, stmt = ctx.p.stmt_at(site)
            rule = "C06.EMPTY" if "EMPTY" in kind else "C06.TRUTH"
            what = (f"{fn}: `{stmt}` tests the truthiness of the container `{tok}`: an empty list/dict/set is treated like a missing one"
                    if rule == "C06.EMPTY" else
                    f"{fn}: `{stmt}` tests the truthiness of `{tok}` ({kind}): falsy elements such as 0 or '' take the wrong branch")
            rep.violate(Violation(rule, f"{rule}|{fn}|{stmt}", what, site, fn, [], hid))
            rep.nontrivial.add((rule, fn, stmt))
    if total_tests < 20:
        raise AnalysisError(f"C06.TRUTH: only {total_tests} truthiness tests observed")
    rep.extra["truthiness_tests_observed"] = total_tests

    # IDX
    inserter_tables_rule(ctx, rep)
    modes = {r["mode"]: r for r in pmap(byindex_worker, ["default", "true", "false"])}
    bad = []
    if not modes["default"]["checks"]:
        bad.append("by_index default: the element-type test `check_type(value_or_index, item_type)` is not consulted")
    if modes["true"]["checks"] or "getitem" not in modes["true"]["reads"] or "index" in modes["true"]["reads"]:
        bad.append(f"by_index=True: expected a positional lookup only (reads {modes['true']['reads']}, type tests {modes['true']['checks']})")
    if modes["false"]["checks"] or "index" not in modes["false"]["reads"] or "getitem" in modes["false"]["reads"]:
        bad.append(f"by_index=False: expected a by-value lookup only (reads {modes['false']['reads']}, type tests {modes['false']['checks']})")
    rep.oblige("C06.IDX", "SequenceMutator._extractor[by_index]", not bad, "; ".join(bad))
    rep.sample({"entry": "SequenceMutator._extractor[by_index]", "modes": modes})
    for b in bad:
        rep.violate(Violation("C06.IDX", f"C06.IDX|by_index|{b[:40]}", f"SequenceMutator._extractor: {b}", "", "SequenceMutator._extractor"))

    # INS
    rep.rules["C06.INS"] = "_mutate_collection: normal paths = [create collection if missing] extractor -> ... -> inserter; failures re-raised unchanged"
    for r in pmap(ins_worker, list(FAMS)):
        rep.functions |= set(r["functions"])
        rep.evaluations += len(r["rows"])
        bad = []
        nok = 0
        for row in r["rows"]:
            names = [e[1] for e in row["trace"] if e[0] == "U"]
            if row["kind"] == "ok":
                nok += 1
                if "inserter" not in names:
                    bad.append("a normal path returns without performing the insertion")
                elif "extractor" not in names or names.index("extractor") > names.index("inserter"):
                    bad.append("the insertion does not follow the extraction")
                if ("NEWCOLL",) in row["trace"]:
                    idx_new = row["trace"].index(("NEWCOLL",))
                    idx_ext = row["trace"].index(("U", "extractor")) if ("U", "extractor") in row["trace"] else 99
                    if idx_new > idx_ext:
                        bad.append("a missing container is created after the extractor ran")
            else:
                if any(e[0] == "RAISE" for e in row["trace"]) and row["exc"] not in ("?",):
                    if not ("RERAISE",) in row["trace"]:
                        bad.append(f"raises a new {row['exc']} instead of re-raising the original exception")
        if nok == 0:
            raise AnalysisError("C06.INS: no normal path through _mutate_collection")
        rep.oblige("C06.INS", f"_mutate_collection[{r['fam']}]", not bad, "; ".join(sorted(set(bad))))
        for b in sorted(set(bad)):
            rep.violate(Violation("C06.INS", f"C06.INS|{b[:60]}", f"CollectionAttrMutator._mutate_collection: {b}", "", "CollectionAttrMutator._mutate_collection"))
        break   # the function is family-independent; one run suffices
    fi = ctx.p.find_function("CollectionAttrMutator._mutate_collection")
    for t in [n for n in walk_own(fi.node) if isinstance(n, ast.Try)]:
        for h in t.handlers:
            last = h.body[-1] if h.body else None
            ok = isinstance(last, ast.Raise) and last.exc is None
            rep.oblige("C06.ERR", "_mutate_collection handler re-raises", ok)
            if not ok:
                rep.violate(Violation("C06.ERR", "C06.ERR|handler", "_mutate_collection converts or swallows the extractor/inserter exception instead of re-raising it",
                                      f"{fi.module.relpath}:{h.lineno}", "CollectionAttrMutator._mutate_collection"))

    # ERR
    rep.rules["C06.ERR"] = "extractors: missing target + raise_if_missing -> IndexError/ValueError/KeyError; transform/remove always ask"
    for r in pmap(err_worker, list(FAMS)):
        fam = r["fam"]
        got = set(r["res"][True])
        ok = got and got <= EXPECTED_EXC[fam] | {"TypeError"} and (EXPECTED_EXC[fam] & got) and not r["res"][False]
        if fam == "sequence":
            ok = ok and EXPECTED_EXC[fam] <= got
        rep.oblige("C06.ERR", f"{MUTATOR_OF[fam]}._extractor", bool(ok), f"raise_if_missing=True raises {sorted(got)}; False raises {r['res'][False]}")
        if not ok:
            rep.violate(Violation("C06.ERR", f"C06.ERR|{fam}|extractor", f"{MUTATOR_OF[fam]}._extractor: with raise_if_missing=True raises {sorted(got) or 'nothing'} (expected {sorted(EXPECTED_EXC[fam])}); with False raises {r['res'][False]}",
                                  "", f"{MUTATOR_OF[fam]}._extractor"))
        ci = ctx.p.find_class(MUTATOR_OF[fam])
        for meth, kwname in (("transform_item", "require_pre_existent"), ("remove_item", "raise_if_missing")):
            c, m = ctx.p.lookup_method(ci, meth)
            src_ok = False
            for n in ast.walk(m[0].node):
                if isinstance(n, ast.Call):
                    for kw in n.keywords:
                        if kw.arg == kwname and isinstance(kw.value, ast.Constant) and kw.value.value is True:
                            src_ok = True
            rep.oblige("C06.ERR", f"{MUTATOR_OF[fam]}.{meth}:{kwname}=True", src_ok)
            if not src_ok:
                rep.violate(Violation("C06.ERR", f"C06.ERR|{fam}|{meth}", f"{MUTATOR_OF[fam]}.{meth} no longer requires the addressed element to exist ({kwname}=True): a missing target is silently accepted",
                                      f"{m[0].module.relpath}:{m[0].node.lineno}", f"{MUTATOR_OF[fam]}.{meth}"))

    # KEY
    rep.rules["C06.KEY"] = "prepare_item decision table"
    r = pmap(key_worker, [0])[0]
    bad = []
    seen_promo = False
    for row in r["rows"]:
        d = row["dec"]
        calls = [c[0] for c in row["calls"]]
        promo = ".item_spec_type" in calls
        has_prep = d.get("truthy:.prepare_item")
        if has_prep and (not calls or calls[0] != ".prepare_item"):
            bad.append("the item preparer is not applied first")
        if has_prep is False and ".prepare_item" in calls:
            bad.append("calls a preparer that does not exist")
        want = bool(d.get("truthy:.item_spec_key_type")) and d.get("is:MISSING") is not True
        chk_item = [v for k, v in d.items() if k.startswith("check:.item_type")]
        chk_key = [v for k, v in d.items() if k.startswith("check:.item_spec_key_type")]
        want = want and chk_item == [False] and chk_key == [True]
        if promo != want:
            bad.append(f"promotion={promo} but conditions {d}")
        seen_promo |= promo
    if not seen_promo:
        bad.append("no path promotes a bare key to a keyed element")
    rep.oblige("C06.KEY", "CollectionAttrMutator.prepare_item", not bad, "; ".join(sorted(set(bad))[:2]) or f"{len(r['rows'])} rows")
    rep.sample({"entry": "prepare_item", "rows": r["rows"][:4]})
    for b in sorted(set(bad)):
        rep.violate(Violation("C06.KEY", f"C06.KEY|{b[:60]}", f"CollectionAttrMutator.prepare_item: {b}", "", "CollectionAttrMutator.prepare_item"))


    # ---- CONT: the keyed container edits like a list *and* keeps its by-key view in step (shared with C13.COH)
    rep.rules["C06.CONT"] = "KeyedList primitives used by the element helpers update list and key index together on every normal path"
    from .c13 import _balance, op_worker
    for r in pmap(op_worker, [("__setitem__", ["index_or_key", "value"], True), ("__delitem__", ["index_or_key"], True), ("insert", ["index", "value"], None)]):
        meth = r["task"][0]
        bad = []
        for row in r["rows"]:
            la, lr, da, dr = _balance(row["trace"])
            if row["kind"] == "ok" and (la != da or lr != dr):
                bad.append(f"a normal path changes the list ({la} in/{lr} out) and the key index ({da} in/{dr} out) differently")
        rep.oblige("C06.CONT", f"KeyedList.{meth}", not bad, "; ".join(sorted(set(bad))))
        for b in sorted(set(bad)):
            rep.violate(Violation("C06.CONT", f"C06.CONT|{meth}|{b[:60]}", f"KeyedList.{meth}: {b}: a second by-key element edit starts from a stale element", "", f"KeyedList.{meth}"))


def check(ctx, rep):
    from . import metarules, shared
    _check_main(ctx, rep)
    from . import metarules, r5rules
    r5rules.remove_by_address(ctx, rep, "C06.REMOVE")
    r5rules.forward_verbatim(ctx, rep, "C06.FWD")
    shared.unused_params(ctx, rep, "C06.PARAM", ["spec_classes.collections", "spec_classes.methods.collections"])
    shared.own_namespace_lookups(ctx, rep, "C06.NS")
    from . import keyedrules
    keyedrules.order_bearing(ctx, rep, "C06.KEYED")
    from .c01 import w_rule
    w_rule(ctx, rep, "C06.COW", lambda h, t: h.family in ("sequence", "mapping", "set"))
    from .c03 import e_rule
    e_rule(ctx, rep, "C06.CHECKFIRST")     # nothing is written to (or removed from) the container before the new element passed its check
