"""Shared context + parallel map for rule workers."""
from __future__ import annotations

import multiprocessing as mp
import os
import traceback
from typing import Callable, List

from ..model import AnalysisError, Program
from ..report import Report, Violation
from ..runs import all_helpers
from ..scenarios import discover

IMMUTABLE_TYPES = {"builtins.bool", "builtins.int", "builtins.float", "builtins.complex", "builtins.str",
                   "builtins.bytes", "builtins.type", "types.ModuleType", "builtins.NoneType"}


class Ctx:
    def __init__(self, repo: str, tier: str):
        self.repo = repo
        self.tier = tier
        self.p = Program(repo)
        self.H = discover(self.p)
        st = self.p.stats()
        if st["modules"] < 30 or st["classes"] < 50 or st["functions"] < 250:
            raise AnalysisError(f"program model under floor: {st}")
        self.helpers = {h.id: h for h in all_helpers(self.H)}

    @property
    def thorough(self):
        return self.tier == "thorough"


_CTX: Ctx = None


def set_ctx(ctx):
    global _CTX
    _CTX = ctx


def get_ctx() -> Ctx:
    return _CTX


def _call(args):
    func, item = args
    if os.environ.get("SA_TIMING"):
        import sys
        import time
        t0 = time.time()
        try:
            return ("ok", func(item))
        finally:
            print(f"TIMING {time.time() - t0:7.2f}s {func.__name__} {item!r}"[:200], file=sys.stderr, flush=True)
    try:
        return ("ok", func(item))
    except AnalysisError as e:
        return ("analysis", f"{e}")
    except Exception as e:  # pragma: no cover
        return ("crash", f"{type(e).__name__}: {e}\n{traceback.format_exc()[-1500:]}")


def pmap(func: Callable, items: List, jobs: int = None):
    """Fork-based parallel map; workers see the parent's Ctx via _CTX."""
    items = list(items)
    jobs = jobs or min(16, os.cpu_count() or 4, max(1, len(items)))
    if jobs <= 1 or len(items) <= 1 or os.environ.get("SA_SERIAL"):
        res = [_call((func, it)) for it in items]
    else:
        with mp.get_context("fork").Pool(jobs) as pool:
            res = pool.map(_call, [(func, it) for it in items], chunksize=1)
    out = []
    for it, (kind, val) in zip(items, res):
        if kind == "ok":
            out.append(val)
        elif kind == "analysis":
            raise AnalysisError(f"{func.__name__}{it!r}: {val}")
        else:
            raise AnalysisError(f"worker crash in {func.__name__}{it!r}: {val}")
    return out


def immutable_reprs(facts) -> set:
    """Token renderings known (on this path) to be instances of an immutable atom type."""
    out = set()
    for k, v in facts.items():
        if v is True and k[0] == "isinstance" and isinstance(k[1], tuple) and k[2] in IMMUTABLE_TYPES:
            out.add("/".join(map(str, k[1])))
        if v is True and k[0] == "immutable":
            out.add("/".join(map(str, k[1])))
    return out


def owner_of(p: Program, fn: str) -> str:
    """A private helper (leading underscore, not a dunder) with a single static caller is part of that caller:
    construct keys name the owning function, so extracting a few statements into a helper does not rename a finding."""
    cm = getattr(p, "_callers_short", None)
    if cm is None:
        cm = {}
        for f_ in p.iter_functions():
            if f_.is_lambda:
                continue
            for _node, g_ in static_callees(p, f_):
                cm.setdefault(short_name(g_), set()).add(short_name(f_))
        p._callers_short = cm
    seen = set()
    while fn not in seen:
        seen.add(fn)
        last = fn.split(".")[-1]
        if not last.startswith("_") or last.startswith("__"):
            break
        cs = cm.get(fn, set()) - {fn}
        if len(cs) != 1:
            break
        fn = next(iter(cs))
    return fn


def wkey(p: Program, rule: str, ev, extra: str = "") -> str:
    """Construct-level key of a write event: rule | target provenance | sink function | sink statement | via."""
    fn, stmt = p.stmt_at(ev[-1])
    fn = owner_of(p, fn)
    via = ev[8] if len(ev) > 9 else ""
    frames = [f for f in via.split(">") if f and "Method." not in f]
    return f"{rule}|{'+'.join(ev[3])}|{fn}|{stmt}|via:{'>'.join(frames[-12:])}{extra}"


def walk_own(fnode):
    """ast.walk restricted to a function's own body (nested defs / lambdas excluded)."""
    import ast
    stack = list(ast.iter_child_nodes(fnode))
    while stack:
        n = stack.pop()
        yield n
        if isinstance(n, (ast.FunctionDef, ast.AsyncFunctionDef, ast.Lambda, ast.ClassDef)):
            continue
        stack.extend(ast.iter_child_nodes(n))


def is_imm(target, imm) -> bool:
    """target is (inside) an object known to be an immutable atom on this path."""
    if not target:
        return False
    for t in imm:
        if target == t or target.startswith(t + "/"):
            return True
    return False


def static_callees(p: Program, fi):
    """Package functions called directly from fi's own body, resolved through module bindings,
    self/cls/ClassName method lookup.  [(call node, FunctionInfo)]"""
    import ast
    out = []
    for n in walk_own(fi.node):
        if not isinstance(n, ast.Call):
            continue
        f = n.func
        target = None
        if isinstance(f, ast.Name):
            r = p.resolve_global(fi.module, f.id)
            if r and r[0] == "func":
                target = r[1]
        elif isinstance(f, ast.Attribute) and isinstance(f.value, ast.Name):
            base = f.value.id
            ci = None
            if base in ("self", "cls") and fi.cls is not None:
                ci = fi.cls
            else:
                r = p.resolve_global(fi.module, base)
                if r and r[0] == "class":
                    ci = r[1]
                elif r and r[0] == "module":
                    r2 = p.resolve_global(r[1], f.attr)
                    if r2 and r2[0] == "func":
                        target = r2[1]
            if ci is not None:
                c_, m = p.lookup_method(ci, f.attr)
                if m:
                    target = m[0]
        if target is not None:
            out.append((n, target))
    return out


def with_callees(p: Program, fi, depth: int = 2):
    """fi followed by the package functions it calls, transitively to `depth` (each once)."""
    seen = {fi.qualname: fi}
    frontier = [fi]
    for _ in range(depth):
        nxt = []
        for f in frontier:
            for _n, g in static_callees(p, f):
                if g.qualname not in seen:
                    seen[g.qualname] = g
                    nxt.append(g)
        frontier = nxt
    return list(seen.values())


def with_private_callees(p: Program, fi, depth: int = 3):
    """fi followed by the private helpers (leading underscore, not a dunder, same module) it calls, transitively:
    the statements of a function that was split into private parts."""
    seen = {fi.qualname: fi}
    frontier = [fi]
    for _ in range(depth):
        nxt = []
        for f in frontier:
            for _n, g in static_callees(p, f):
                last = short_name(g).split(".")[-1]
                if g.qualname not in seen and g.module is fi.module and last.startswith("_") and not last.startswith("__"):
                    seen[g.qualname] = g
                    nxt.append(g)
        frontier = nxt
    return list(seen.values())


def walk_own_all(p: Program, fi):
    """walk_own over fi and its private helpers; yields (function, node)."""
    for f in with_private_callees(p, fi):
        for n in walk_own(f.node):
            yield f, n


def referenced_functions(p: Program, fi):
    """Package functions named (called or passed as a value) anywhere in fi, lambdas included."""
    import ast
    out = {}
    for n in ast.walk(fi.node):
        if isinstance(n, ast.Name) and isinstance(n.ctx, ast.Load):
            r = p.resolve_global(fi.module, n.id)
            if r and r[0] == "func":
                out[r[1].qualname] = r[1]
    return list(out.values())


def class_valued(fi):
    """Local names of fi that denote classes (flow-insensitive): conventional parameter names, parameters
    annotated type/Type, results of type(x) / x.__class__, loop variables over an MRO / __bases__."""
    import ast
    out = set()
    a = fi.node.args
    for p_ in a.posonlyargs + a.args + a.kwonlyargs:
        ann = ast.unparse(p_.annotation) if p_.annotation is not None else ""
        if p_.arg in ("spec_cls", "cls", "owner", "klass", "objtype", "attr_type", "type_", "item_type") or p_.arg.endswith("_cls") \
                or ann in ("type", "Type", "typing.Type") or ann.startswith("Type["):
            out.add(p_.arg)
    for n in walk_own(fi.node):
        if isinstance(n, ast.Assign) and len(n.targets) == 1 and isinstance(n.targets[0], ast.Name):
            v = ast.unparse(n.value)
            if (isinstance(n.value, ast.Call) and ast.unparse(n.value.func) == "type" and len(n.value.args) == 1) or v.endswith(".__class__"):
                out.add(n.targets[0].id)
        if isinstance(n, (ast.For, ast.comprehension)) and isinstance(n.target, ast.Name):
            it = ast.unparse(n.iter)
            if ".mro()" in it or "__mro__" in it or "__bases__" in it:
                out.add(n.target.id)
    for n in __import__("ast").walk(fi.node):
        if isinstance(n, ast.comprehension) and isinstance(n.target, ast.Name):
            it = ast.unparse(n.iter)
            if ".mro()" in it or "__mro__" in it or "__bases__" in it:
                out.add(n.target.id)
    return out


def callers_map(ctx):
    """short name of callee -> [short names of its static callers] (cached on the context)."""
    cm = getattr(ctx, "_callers_map", None)
    if cm is None:
        cm = {}
        for f_ in ctx.p.iter_functions():
            if f_.is_lambda:
                continue
            for _node, g_ in static_callees(ctx.p, f_):
                cm.setdefault(short_name(g_), []).append(short_name(f_))
        ctx._callers_map = cm
    return cm


def short_name(fi):
    return fi.qualname.split(":")[-1].split("#")[0]


def site_allowed(ctx, short: str, allowed, depth: int = 2) -> bool:
    """`short` is an enumerated site (allowed(short) is true), or a private helper (leading underscore, not a dunder)
    extracted from enumerated sites: every static caller is itself allowed (transitively, to `depth`)."""
    if allowed(short):
        return True
    last = short.split(".")[-1]
    if depth <= 0 or not last.startswith("_") or last.startswith("__"):
        return False
    cs = callers_map(ctx).get(short, [])
    return bool(cs) and all(site_allowed(ctx, c_, allowed, depth - 1) for c_ in cs)
