"""C09 — the generated constructor assigns what the class hierarchy specifies (structural clauses;
the resolved values per hierarchy are NOT decided).

C09.POST __post_init__ is called at one site, only for the instance's own class, after every
         attribute write, the parent constructors and the overflow store, before the initialising
         flag is removed; never in the parent role
C09.OWN  the local loop initialises an attribute iff init-enabled, owned by this class and not the
         overflow attribute (guards snapshotted at each raw write)
C09.PAR  parent constructors are invoked for every class of the MRO (not only direct bases), and a
         forwarded keyword is removed from kwargs
C09.DEF  absent keywords fall back to lookup_default_value(<class of the instance>); presence of a
         value is tested by identity with MISSING, never by truthiness (falsy defaults / values)
C09.OVF  a keyword goes to the overflow dict iff it is not a managed attribute or is the overflow attribute
C09.SIG  the key parameter is added before the attribute keywords, only if a key is configured, with
         default MISSING iff the key attribute has a default
"""
from __future__ import annotations

import ast

from ..model import AnalysisError
from ..report import Report, Violation
from ..runs import run_function
from ..scenarios import core_impl, recv_sym
from ..values import ARG, CLS, FRESH, IMM, RECV, Const, Event, Sym, vrepr
from . import boolfn
from .base import get_ctx, pmap, walk_own, walk_own_all, with_private_callees
from .c08 import attr_class_fn

META = {
    "assumptions": ["hand-written parent constructors are opaque", "resolved values are not decided statically"],
    "trusted": ["sa abstract interpreter", "stdlib ast"],
}


def _g(k):
    if k[0] == "truthy" and isinstance(k[1], tuple) and k[1][-1] in (".init",):
        return True
    if k[0] == "is" and ".owner" in repr(k):
        return True
    if k[0] == "eq" and "init_overflow_attr" in repr(k):
        return True
    return False


def init_worker(role):
    ctx = get_ctx()
    fi = core_impl(ctx.H, "init").impl
    a, b = sorted([("self", ".__spec_class__", ".owner"), ("spec_cls",)])
    facts = {("is", a, ("tok", b)): role == "own"}

    def stub_prepare(interp, st, args, kwargs, frame, node):
        from ..common import Outcome
        a_ = [x for x in args if not isinstance(x, tuple)]
        return [Outcome("ok", st, kwargs.get("value", a_[2] if len(a_) > 2 else None))]

    def conf(cfg):
        cfg.loop_unroll = 1
        cfg.user_may_raise = False
        cfg.rawset_raises = False
        cfg.guard_pred = _g
        cfg.record_truth_tests = True
        cfg.arg_summary_all = True
        cfg.emit_dict_pops = True
        cfg.stubs["prepare_attr_value"] = stub_prepare

        def red(trace, ev):
            if ev[0] == "W" and ev[1] in ("rawset", "rawdel"):
                flag = "__spec_class_initializing__" in str(ev[4])
                n = Event(("RAW", ev[1], "flag" if flag else "attr", ev[7] if not flag else (), ev[9]))
            elif ev[0] == "DP":
                n = Event(("POP", ev[-1]))
            elif ev[0] == "U":
                nm = ev[1]
                if ev[2] == "post_init":
                    n = Event(("POST", ev[-1]))
                elif nm.endswith(".__init__"):
                    n = Event(("PARENT", nm, ev[-1]))
                elif nm.endswith(".lookup_default_value"):
                    n = Event(("LOOKUP", tuple(a_[1] for a_ in ev[3]), ev[-1]))
                elif nm.startswith("self/.{"):
                    n = Event(("OVERFLOW", ev[-1]))
                else:
                    return trace
            else:
                return trace
            if n in trace:
                return trace
            return trace + (n,)
        red.is_reducer = True
        cfg.event_filter = red
    it, outs = run_function(ctx.p, ctx.H, fi, [Sym(("spec_cls",), {CLS}), recv_sym()],
                            {"**": Sym(("kwargs", "[]"), {ARG})}, frozen=False, initializing=False,
                            configure=conf, extra_facts=facts)
    rows = [{"kind": o.kind, "trace": [tuple(e) for e in o.state.trace]} for o in outs]
    tt = sorted({("/".join(map(str, t[0])), t[2]) for t in it.truth_tests})
    return {"role": role, "rows": rows, "truth": tt, "functions": sorted(it.functions_entered)}


def _check_main(ctx, rep: Report):
    res = {r["role"]: r for r in pmap(init_worker, ["own", "parent"])}
    for r in res.values():
        rep.functions |= set(r["functions"])
        rep.evaluations += len(r["rows"])
        for row in r["rows"]:
            rep.nontrivial.add((r["role"], tuple(row["trace"])))
    rep.sample({"entry": "InitMethod.init[own]", "traces": [row["trace"] for row in res["own"]["rows"][:2]]})

    # ---- POST
    rep.rules["C09.POST"] = "order of events on every normal constructor path; non-trivial = distinct event sequences"
    fi = core_impl(ctx.H, "init").impl
    sites = [n for _f, n in walk_own_all(ctx.p, fi) if isinstance(n, ast.Call) and ast.unparse(n.func).endswith("post_init")]
    rep.oblige("C09.POST", "single call site", len(sites) == 1, f"{len(sites)} call sites")
    if len(sites) != 1:
        rep.violate(Violation("C09.POST", f"C09.POST|sites={len(sites)}", f"InitMethod.init has {len(sites)} call sites of post_init (expected exactly one)",
                              f"{fi.module.relpath}:{fi.node.lineno}", "InitMethod.init"))
    bad = []
    n_post = 0
    for row in res["own"]["rows"]:
        if row["kind"] != "ok":
            continue
        tr = row["trace"]
        posts = [i for i, e in enumerate(tr) if e[0] == "POST"]
        if len(posts) > 1:
            bad.append("__post_init__ can run more than once")
        if not posts:
            continue
        n_post += 1
        i = posts[0]
        after = tr[i + 1:]
        if any(e[0] == "RAW" and e[2] == "attr" for e in after):
            bad.append("an attribute is still written after __post_init__ ran")
        if any(e[0] == "PARENT" for e in after):
            bad.append("a parent constructor runs after __post_init__")
        if any(e[0] == "OVERFLOW" for e in after):
            bad.append("the overflow attribute is stored after __post_init__ ran")
        if not any(e[0] == "RAW" and e[1] == "rawdel" and e[2] == "flag" for e in after):
            bad.append("the initialising flag is removed before __post_init__ (or never)")
    if n_post == 0:
        bad.append("__post_init__ is never called for the instance's own class")
    for row in res["parent"]["rows"]:
        if any(e[0] == "POST" for e in row["trace"]):
            bad.append("__post_init__ also runs when the constructor is invoked as a parent constructor (it would run more than once)")
    rep.oblige("C09.POST", "event order", not bad, "; ".join(sorted(set(bad))))
    for b in sorted(set(bad)):
        rep.violate(Violation("C09.POST", f"C09.POST|{b[:60]}", f"InitMethod.init: {b}", f"{fi.module.relpath}:{sites[0].lineno}" if sites else "", "InitMethod.init"))

    # ---- OWN
    rep.rules["C09.OWN"] = "guards of every attribute raw write in the local loop"
    bad = []
    nw = 0
    for role in ("own", "parent"):
        for row in res[role]["rows"]:
            for e in row["trace"]:
                if e[0] == "RAW" and e[1] == "rawset" and e[2] == "attr":
                    nw += 1
                    g = dict(e[3])
                    init_ok = any(k[0] == "truthy" and k[1][-1] == ".init" and v for k, v in g.items())
                    owner_ok = any(k[0] == "is" and ".owner" in repr(k) and "items()" in repr(k) and v for k, v in g.items())
                    ovf_ok = any(k[0] == "eq" and v is False for k, v in g.items())
                    if not init_ok:
                        bad.append("an init=False attribute can be initialised by the constructor")
                    if not owner_ok:
                        bad.append("an attribute owned by another class is initialised locally (it is also initialised by its owner's constructor)")
                    if not ovf_ok:
                        bad.append("the overflow attribute is initialised like an ordinary attribute")
    if nw == 0:
        raise AnalysisError("C09.OWN: no attribute write found in InitMethod.init")
    rep.oblige("C09.OWN", "local loop filter", not bad, "; ".join(sorted(set(bad))) or f"{nw} guarded writes")
    for b in sorted(set(bad)):
        rep.violate(Violation("C09.OWN", f"C09.OWN|{b[:60]}", f"InitMethod.init: {b}", "", "InitMethod.init"))

    # ---- PAR
    rep.rules["C09.PAR"] = "parent constructors over the whole MRO; forwarded keywords popped"
    parents = {e[1] for row in res["own"]["rows"] for e in row["trace"] if e[0] == "PARENT"}
    bad = []
    if not parents:
        bad.append("no parent constructor is ever invoked")
    for pz in parents:
        if ".mro()" not in pz:
            bad.append(f"parent constructors are taken from `{pz.split('/.__init__')[0]}` rather than the full MRO: attributes owned by a grandparent are never initialised")
    popped = False
    for row in res["own"]["rows"]:
        tr = row["trace"]
        ip = [i for i, e in enumerate(tr) if e[0] == "POP"]
        ic = [i for i, e in enumerate(tr) if e[0] == "PARENT"]
        if ip and ic and min(ip) < max(ic):
            popped = True
    if not popped:
        bad.append("a keyword forwarded to a parent constructor is not removed from kwargs")
    if any(e[0] == "PARENT" for row in res["parent"]["rows"] for e in row["trace"]):
        bad.append("a constructor invoked as parent invokes parent constructors again")
    rep.oblige("C09.PAR", "parent dispatch", not bad, "; ".join(bad))
    for b in bad:
        rep.violate(Violation("C09.PAR", f"C09.PAR|{b[:50]}", f"InitMethod.init: {b}", "", "InitMethod.init"))

    # ---- DEF
    rep.rules["C09.DEF"] = "default lookup is relative to the instance's class; no truthiness test on values/defaults"
    bad = []
    nl = 0
    for role in ("own", "parent"):
        for row in res[role]["rows"]:
            for e in row["trace"]:
                if e[0] == "LOOKUP":
                    nl += 1
                    if not e[1] or e[1][0] != "self/.__class__":
                        bad.append(f"lookup_default_value({', '.join(e[1])}) is not given the class of the instance: subclass overrides are ignored")
        for tok, site in res[role]["truth"]:
            if "lookup_default_value" in tok or tok.startswith("kwargs/") or tok.startswith("call/self/.__spec_class__/.attrs") and "lookup" in tok:
                fn, stmt = ctx.p.stmt_at(site)
                bad.append(f"`{stmt}` tests the truthiness of a value/default (`{tok.split('/')[-1]}`): falsy values such as 0, '' or False are dropped")
    if nl < 2:
        raise AnalysisError(f"C09.DEF: {nl} default lookups observed (floor 2)")
    rep.oblige("C09.DEF", "default lookups", not bad, "; ".join(sorted(set(bad))[:2]) or f"{nl} lookups")
    for b in sorted(set(bad)):
        rep.violate(Violation("C09.DEF", f"C09.DEF|{b[:70]}", f"InitMethod.init: {b}", "", "InitMethod.init"))

    # ---- OVF
    rep.rules["C09.OVF"] = "truth table of the overflow filter over {key is a managed attribute, key is the overflow attribute}"
    comps = [n for _f, n in walk_own_all(ctx.p, fi) if isinstance(n, ast.DictComp)]
    ok = False
    detail = "the overflow dictionary is not filtered at all"
    conds = None
    if comps:
        conds = comps[0].generators[0].ifs
    else:
        # explicit loop form: for k, v in kwargs.items(): [guards] d[k] = v
        for _f, loop in walk_own_all(ctx.p, fi):
            if isinstance(loop, ast.For) and "kwargs" in ast.unparse(loop.iter) and isinstance(loop.target, ast.Tuple):
                kname = ast.unparse(loop.target.elts[0])

                def is_store(s, kname=kname):
                    return isinstance(s, ast.Assign) and isinstance(s.targets[0], ast.Subscript) \
                        and ast.unparse(s.targets[0].slice) == kname
                rc = boolfn.reach_condition(loop.body, is_store)
                if rc is not None:
                    comps = [loop]
                    conds = [] if rc is True else [rc]
                    break
        if conds is None and any(e[0] == "OVERFLOW" for row in res["own"]["rows"] for e in row["trace"]):
            raise AnalysisError("C09.OVF: the construction of the overflow dictionary is in a form this rule does not read")
    if conds is not None:

        def classify(n):
            t = ast.unparse(n)
            if isinstance(n, ast.Compare) and len(n.ops) == 1:
                if isinstance(n.ops[0], (ast.In, ast.NotIn)) and ("annotations" in t or ".attrs" in t):
                    return ("managed", isinstance(n.ops[0], ast.In))
                if isinstance(n.ops[0], (ast.Eq, ast.NotEq)) and "init_overflow_attr" in t:
                    return ("is_overflow", isinstance(n.ops[0], ast.Eq))
            return None
        try:
            cond = conds[0] if len(conds) == 1 else ast.BoolOp(op=ast.And(), values=list(conds))
            for f_ in with_private_callees(ctx.p, fi):
                cond = boolfn.inline_predicates(cond, f_.node)
            tbl = boolfn.table(cond, classify, ["managed", "is_overflow"]) if conds else {}
            want = {(m, o): (not m) or o for m in (False, True) for o in (False, True)}
            ok = bool(conds) and tbl == want
            detail = "" if ok else f"filter table {tbl} differs from oracle {want}"
        except ValueError as e:
            raise AnalysisError(f"C09.OVF: {e}")
    rep.oblige("C09.OVF", "overflow filter", ok, detail)
    rep.extra["exhaustive"] = True
    if not ok:
        rep.violate(Violation("C09.OVF", "C09.OVF|filter", f"InitMethod.init: the overflow attribute does not receive exactly the unknown keywords ({detail})",
                              f"{fi.module.relpath}:{comps[0].lineno}" if comps else "", "InitMethod.init"))

    # ---- SIG
    rep.rules["C09.SIG"] = "builder chain of the generated __init__"
    c, m = ctx.p.lookup_method(core_impl(ctx.H, "init").desc_cls, "build_method")
    b = m[0].node
    src = ast.unparse(b)
    bad = []
    from .c17 import _chain, _dealias
    chains = _chain(b)
    if len(chains) != 1:
        raise AnalysisError(f"C09.SIG: {len(chains)} builder chains found in InitMethod.build_method")
    i_arg = i_attrs = -1
    key_link = None
    for i_, (name_, a_, kw_) in enumerate(chains[0]):
        first = a_[0] if a_ else kw_.get("name")
        if name_ == "with_arg" and first is not None and ast.unparse(first) == "spec_class_key" and i_arg < 0:
            i_arg, key_link = i_, kw_
        if name_ == "with_spec_attrs_for" and a_ and _dealias(b, a_[0]) == "self.spec_cls" and i_attrs < 0:
            i_attrs = i_
    if i_arg < 0 or i_attrs < 0 or i_arg > i_attrs:
        bad.append("the key parameter is not added before the attribute keywords of this class")
    if key_link is None or "only_if" not in key_link or ast.unparse(key_link["only_if"]) != "spec_class_key":
        bad.append("the key parameter is added even when no key is configured")
    ifexps = [n for n in ast.walk(b) if isinstance(n, ast.IfExp) and "has_default" in ast.unparse(n.test)]
    if not ifexps:
        # statement form: <var> = inspect.Parameter.empty ... if <spec>.has_default: <var> = MISSING
        from .c16 import _guards_of
        var = None
        for n_ in ast.walk(b):
            if isinstance(n_, ast.Call) and isinstance(n_.func, ast.Attribute) and n_.func.attr == "with_arg" and n_.args \
                    and ast.unparse(n_.args[0]) == "spec_class_key":
                for k_ in n_.keywords:
                    if k_.arg == "default" and isinstance(k_.value, ast.Name):
                        var = k_.value.id
        assigns = [n_ for n_ in walk_own(b) if isinstance(n_, ast.Assign) and len(n_.targets) == 1 and ast.unparse(n_.targets[0]) == var]
        opt = [n_ for n_ in assigns if ast.unparse(n_.value) == "MISSING"]
        req = [n_ for n_ in assigns if "empty" in ast.unparse(n_.value)]
        ok_stmt = bool(var) and bool(opt) and bool(req) and all(
            any("has_default" in g_ and not g_.startswith("not (") for g_ in _guards_of(b, n_)) for n_ in opt) \
            and not any(any("has_default" in g_ and not g_.startswith("not (") for g_ in _guards_of(b, n_)) for n_ in req)
        if not ok_stmt:
            bad.append("the key default no longer depends on has_default")
    else:
        ie = ifexps[0]
        pos = not (isinstance(ie.test, ast.UnaryOp) and isinstance(ie.test.op, ast.Not))
        when_default, when_none = (ie.body, ie.orelse) if pos else (ie.orelse, ie.body)
        if ast.unparse(when_default) != "MISSING" or "empty" not in ast.unparse(when_none):
            bad.append("key with a default must be optional (default MISSING) and a key without default required")
    rep.oblige("C09.SIG", "InitMethod.build_method", not bad, "; ".join(bad))
    for x in bad:
        rep.violate(Violation("C09.SIG", f"C09.SIG|{x[:50]}", f"InitMethod.build_method: {x}", f"{m[0].module.relpath}:{b.lineno}", "InitMethod.build_method"))


    # ---- HOOK: __post_init__ is resolved along the MRO of the class being decorated
    rep.rules["C09.HOOK"] = "SpecClassMetadata.for_class takes post_init from getattr(spec_cls, '__post_init__', None) (MRO lookup), on every construction path"
    fc = ctx.p.find_function("SpecClassMetadata.for_class")
    ctors = [n for n in ast.walk(fc.node) if isinstance(n, ast.Call) and ast.unparse(n.func) == "cls"]
    bad = []
    if not ctors:
        bad.append("no metadata construction found")
    for n in ctors:
        pi = [k for k in n.keywords if k.arg == "post_init"]
        if not pi:
            bad.append("post_init is not passed")
            continue
        v = pi[0].value
        okv = isinstance(v, ast.Call) and ast.unparse(v.func) == "getattr" and len(v.args) >= 2 and ast.unparse(v.args[0]) == "spec_cls" \
            and isinstance(v.args[1], ast.Constant) and v.args[1].value == "__post_init__"
        if not okv:
            bad.append(f"post_init comes from `{ast.unparse(v)}`: a hook supplied by a later base / a plain mixin is not found (never runs) or a parent's hook is used instead of the MRO's")
    rep.oblige("C09.HOOK", "SpecClassMetadata.for_class", not bad, "; ".join(bad))
    for b_ in sorted(set(bad)):
        rep.violate(Violation("C09.HOOK", f"C09.HOOK|{b_[:60]}", f"SpecClassMetadata.for_class: {b_}", f"{fc.module.relpath}:{fc.node.lineno}", "SpecClassMetadata.for_class"))

    # ---- NEAREST: the default comes from the nearest definition along the MRO (shared with C08.OWNER / C08.MRO)
    rep.rules["C09.NEAREST"] = "lookup_default_value walks the MRO and stops only at the owner or at a class that defines the name"
    from .c08 import fr_worker
    r0 = pmap(fr_worker, ["lookup_default_value"])[0]
    bad = []
    for row in r0["rows"]:
        if row["kind"] == "ok" and row.get("default_value_called") and \
                not any("owner" in d and d.endswith("=True") and d.startswith("is:") for d in row["dec"]):
            bad.append("the owner's stored default is returned for a class that is not the owner (" + "; ".join(row["dec"][-2:]) + ")")
    attr_ci = ctx.p.find_class("Attr")
    c_, m_ = ctx.p.lookup_method(attr_ci, "lookup_default_value")
    fnn = m_[0].node
    loops = [s for s in fnn.body if isinstance(s, ast.For) and "mro" in ast.unparse(s.iter)]
    if not loops:
        bad.append("no walk over the MRO of the instance's class")
    else:
        for s in fnn.body:
            if s is loops[0]:
                break
            if any(isinstance(n, ast.Return) for n in ast.walk(s)):
                bad.append("returns before walking the MRO")
    rep.oblige("C09.NEAREST", "Attr.lookup_default_value", not bad, "; ".join(sorted(set(bad))[:1]))
    for b_ in sorted(set(bad))[:2]:
        rep.violate(Violation("C09.NEAREST", f"C09.NEAREST|{b_[:60]}", f"Attr.lookup_default_value: {b_}", f"{m_[0].module.relpath}:{fnn.lineno}", "Attr.lookup_default_value"))


def check(ctx, rep):
    from . import metarules, shared
    _check_main(ctx, rep)
    from . import metarules, r5rules
    r5rules.nearest_stop(ctx, rep, "C09.NEAREST")
    metarules.attr_spec_fresh(ctx, rep, "C09.SPEC")
    r5rules.setattr_rules(ctx, rep, "C09.DUNDER", ("prepare",))
    r5rules.options_independent(ctx, rep, "C09.OPTS")
    shared.own_namespace_lookups(ctx, rep, "C09.NS")
    metarules.preparer_registration(ctx, rep, "C09.PREP")
    metarules.parent_ctor_guard(ctx, rep, "C09.PAR")
    metarules.for_class_rule(ctx, rep, "C09.META", ("mro", "attrs"))
    metarules.preparer_always(ctx, rep, "C09.PREPALL")
    metarules.options_verbatim(ctx, rep, "C09.OPT")
    from .c17 import v_rule
    v_rule(ctx, rep, "C09.UNKNOWN")       # unknown constructor keywords raise TypeError (every one of them, before anything is set)
    metarules.parent_kwargs_init_only(ctx, rep, "C09.PAR")
