"""C20 — copying leaves process-global state untouched and is safe across threads.

Schedules are not enumerated; decided is the discipline that makes them irrelevant:
C20.WHO  copyreg.dispatch_table is written at exactly two sites (install in __enter__, delete in __exit__)
C20.WITH every _modules_copyable() is the context expression of a `with` (restored on normal and
         exceptional exit)
C20.BAL  extracted transition tables of __enter__/__exit__ over refcount in {0..3} x patched x entry
         present: count +1/-1 on every path, install iff absent (then patched), delete iff patched and
         count reaches 0
C20.INV  inductive invariant over the extracted tables: patched <=> the entry is ours; count 0 => entry
         not ours (so: whenever no copy is in progress the table is as found)
C20.LK   every access to the counters / the table entry happens while self.lock is held
C20.PERS the shared instance's state is initialised exactly once (no unguarded re-initialisation when
         the singleton is looked up again), under a creation lock; the lock object is never replaced
"""
from __future__ import annotations

import ast

from ..model import AnalysisError
from ..report import Report, Violation
from ..runs import run_function
from ..state import State
from ..values import ARG, CLS, FRESH, GLOBAL, IMM, RECV, Const, Inst, Ref, Sym, vrepr
from .base import get_ctx, pmap, walk_own

META = {"assumptions": ["RLock provides mutual exclusion and re-entrancy", "no other code removes our dispatch-table entry"],
        "trusted": ["sa abstract interpreter", "stdlib ast"]}


def trans_worker(case):
    meth, rc, patched, present = case[:4]
    exc = len(case) > 4 and case[4]
    ctx = get_ctx()
    ci = ctx.p.find_class("_modules_copyable")
    c, m = ctx.p.lookup_method(ci, meth)
    st = State()
    lock = Sym(("the_lock",), {GLOBAL}, tags={"lock"})
    addr = st.alloc("singleton", Inst(ci, {"lock": lock, "refcount": Const(rc), "patched_table": Const(patched)}, GLOBAL))
    exit_args = [Const(None)] * 3 if not exc else [Sym((n,), {"IMM"}, tags={"nonsentinel"}) for n in ("exc_type", "exc_value", "tb")]
    args = [Ref(addr)] + (exit_args if meth == "__exit__" else [])

    def conf(cfg):
        cfg.stubs.pop("_modules_copyable.<new>", None)
        cfg.fact_defaults.insert(0, lambda k: present if (k[0] == "in" and "dispatch_table" in repr(k)) else None)
    it, outs = run_function(ctx.p, ctx.H, m[0], args, {}, configure=conf, state=st)
    rows = []
    for o in outs:
        inst = o.state.heap.get(addr)
        held = 0
        unlocked = []
        table_ops = []
        for e in o.state.trace:
            if e[0] == "L+":
                held += 1
            elif e[0] == "L-":
                held -= 1
            elif e[0] == "W":
                if "dispatch_table" in e[2]:
                    table_ops.append("install" if e[1] == "setitem" else "delete")
                if held <= 0:
                    unlocked.append((e[1], e[2], e[4], e[-1]))
        rc2 = inst.fields.get("refcount")
        p2 = inst.fields.get("patched_table")
        rows.append({"kind": o.kind, "rc": rc2.value if isinstance(rc2, Const) else vrepr(rc2),
                     "patched": p2.value if isinstance(p2, Const) else vrepr(p2), "table": table_ops,
                     "unlocked": unlocked, "lock_same": vrepr(inst.fields.get("lock")) == "the_lock"})
    return {"case": case, "rows": rows, "functions": sorted(it.functions_entered)}


def _check_main(ctx, rep: Report):
    ci = ctx.p.find_class("_modules_copyable")
    mod = ci.module
    # ---- WHO
    rep.rules["C20.WHO"] = "writers of copyreg.dispatch_table"
    writes = []
    for fi in ctx.p.iter_functions():
        if fi.is_lambda:
            continue
        short = fi.qualname.split(":")[-1].split("#")[0]
        for n in walk_own(fi.node):
            tgts = []
            if isinstance(n, ast.Assign):
                tgts = [(t, "install") for t in n.targets]
            elif isinstance(n, ast.AugAssign):
                tgts = [(n.target, "install")]
            elif isinstance(n, ast.Delete):
                tgts = [(t, "delete") for t in n.targets]
            elif isinstance(n, ast.Call) and isinstance(n.func, ast.Attribute) and "dispatch_table" in ast.unparse(n.func.value) \
                    and n.func.attr in ("pop", "update", "setdefault", "clear", "popitem", "__setitem__", "__delitem__"):
                writes.append((short, n.func.attr, f"{fi.module.relpath}:{n.lineno}"))
            for t, kind in tgts:
                if isinstance(t, ast.Subscript) and "dispatch_table" in ast.unparse(t.value):
                    writes.append((short, kind, f"{fi.module.relpath}:{n.lineno}"))
                if isinstance(t, ast.Attribute) and t.attr == "dispatch_table":
                    writes.append((short, "rebind", f"{fi.module.relpath}:{n.lineno}"))
    want = {("_modules_copyable.__enter__", "install"), ("_modules_copyable.__exit__", "delete")}
    got = {(w[0], w[1]) for w in writes}
    for w in writes:
        ok = (w[0], w[1]) in want
        rep.oblige("C20.WHO", f"{w[0]}:{w[1]}", ok)
        if not ok:
            rep.violate(Violation("C20.WHO", f"C20.WHO|{w[0]}|{w[1]}", f"{w[0]} writes copyreg.dispatch_table ({w[1]}) outside the scoped install/restore pair", w[2], w[0]))
    if want - got:
        raise AnalysisError(f"C20.WHO: expected writers missing: {sorted(want - got)}")
    if len(writes) != 2:
        rep.violate(Violation("C20.WHO", f"C20.WHO|count={len(writes)}", f"{len(writes)} writes of copyreg.dispatch_table (expected exactly one install and one delete)", "", "_modules_copyable"))

    # ---- WITH
    rep.rules["C20.WITH"] = "constructions of _modules_copyable are `with` context expressions"
    nuse = 0
    for fi in ctx.p.iter_functions():
        if fi.is_lambda:
            continue
        short = fi.qualname.split(":")[-1].split("#")[0]
        with_exprs = set()
        for n in walk_own(fi.node):
            if isinstance(n, ast.With):
                for it in n.items:
                    with_exprs.add(id(it.context_expr))
        for n in walk_own(fi.node):
            if isinstance(n, ast.Call) and ast.unparse(n.func).split(".")[-1] == "_modules_copyable":
                nuse += 1
                ok = id(n) in with_exprs
                if not ok:
                    # `guard = _modules_copyable()` immediately used as `with guard:` (the name is bound once and only entered)
                    binds = [a_ for a_ in walk_own(fi.node) if isinstance(a_, ast.Assign) and a_.value is n and len(a_.targets) == 1 and isinstance(a_.targets[0], ast.Name)]
                    if binds:
                        nm = binds[0].targets[0].id
                        uses = [x_ for x_ in walk_own(fi.node) if isinstance(x_, ast.Name) and x_.id == nm and isinstance(x_.ctx, ast.Load)]
                        entered = [w_ for w_ in walk_own(fi.node) if isinstance(w_, ast.With) and any(isinstance(it.context_expr, ast.Name) and it.context_expr.id == nm for it in w_.items)]
                        body = [s_ for s_ in ast.walk(fi.node) if isinstance(getattr(s_, "body", None), list) and binds[0] in s_.body]
                        adjacent = bool(body) and bool(entered) and body[0].body.index(binds[0]) + 1 < len(body[0].body) and body[0].body[body[0].body.index(binds[0]) + 1] is entered[0]
                        ok = len(uses) == 1 and len(entered) == 1 and adjacent
                rep.oblige("C20.WITH", short, ok)
                if not ok:
                    rep.violate(Violation("C20.WITH", f"C20.WITH|{short}", f"{short} uses _modules_copyable() outside a `with` statement: an aborted copy leaves the dispatch table patched",
                                          f"{fi.module.relpath}:{n.lineno}", short))
    if nuse < 1:
        raise AnalysisError("C20.WITH: no use of _modules_copyable found")

    # ---- BAL / LK / INV
    rep.rules["C20.BAL"] = "transition tables extracted for every concrete start state (refcount 0..3 x patched x entry present): exhaustive"
    rep.extra["exhaustive"] = True
    cases = [(m, rc, p, e) for m in ("__enter__", "__exit__") for rc in (0, 1, 2, 3) for p in (False, True) for e in (False, True)
             if not (m == "__exit__" and rc == 0)]
    cases += [("__exit__", rc, p, e, True) for rc in (1, 2) for p in (False, True) for e in (False, True)]   # copy aborted by an exception
    table = {}
    lk_bad, bal_bad = [], []
    for r in pmap(trans_worker, cases):
        rep.functions |= set(r["functions"])
        rep.evaluations += len(r["rows"])
        meth, rc, patched, present = r["case"][:4]
        aborted = len(r["case"]) > 4
        oks = [row for row in r["rows"] if row["kind"] == "ok"]
        if len(oks) != 1:
            bal_bad.append(f"{meth} from (refcount={rc}, patched={patched}, entry present={present}) has {len(oks)} normal outcomes")
            continue
        row = oks[0]
        if not aborted:
            table[(meth, rc, patched, present)] = row
        rep.nontrivial.add((meth, rc, patched, present, row["rc"], row["patched"], tuple(row["table"])))
        for u in row["unlocked"]:
            lk_bad.append((meth, u))
        if not row["lock_same"]:
            lk_bad.append((meth, ("lock replaced",)))
        # oracle
        if meth == "__enter__":
            exp = (rc + 1, True if not present else patched, ["install"] if not present else [])
        else:
            last = patched and rc - 1 == 0
            exp = (rc - 1, False if last else patched, ["delete"] if last else [])
        got = (row["rc"], row["patched"], row["table"])
        if got != exp:
            bal_bad.append(f"{meth}{' after an aborted copy (exception passed to __exit__)' if aborted else ''} from (refcount={rc}, patched={patched}, entry present={present}): expected (refcount, patched, table ops)={exp}, got {got}")
    rep.oblige("C20.BAL", "__enter__/__exit__ tables", not bal_bad, "; ".join(bal_bad[:2]) or f"{len(table)} start states")
    rep.sample({"entry": "transition table", "rows": [[list(k), v] for k, v in list(table.items())[:4]]})
    for b in bal_bad[:3]:
        rep.violate(Violation("C20.BAL", f"C20.BAL|{b[:80]}", f"_modules_copyable: {b}", "", "_modules_copyable"))
    rep.rules["C20.LK"] = "counter / table accesses only while self.lock is held; lock object never replaced"
    rep.oblige("C20.LK", "lock discipline", not lk_bad, str(lk_bad[:2]))
    for meth, u in sorted(set(lk_bad))[:3]:
        site = u[-1] if len(u) > 1 else ""
        fn, stmt = ctx.p.stmt_at(site) if site else (meth, "")
        rep.violate(Violation("C20.LK", f"C20.LK|{meth}|{stmt or u[0]}", f"_modules_copyable.{meth}: `{stmt or u[0]}` touches the shared counters / dispatch table without holding self.lock (check-then-act race with a concurrent copy)",
                              site, f"_modules_copyable.{meth}"))
    # INV: inductive over the extracted tables. abstract entry in {absent, ours, foreign}
    rep.rules["C20.INV"] = "patched <=> entry is ours; refcount == 0 => entry is not ours; preserved by the extracted tables"
    inv_bad = []

    def I(rc, patched, entry):
        return (patched == (entry == "ours")) and (rc > 0 or entry != "ours")
    for rc in (0, 1, 2):
        for patched in (False, True):
            for entry in ("absent", "ours", "foreign"):
                if not I(rc, patched, entry):
                    continue
                for meth in ("__enter__", "__exit__"):
                    if meth == "__exit__" and rc == 0:
                        continue
                    row = table.get((meth, rc, patched, entry != "absent"))
                    if row is None:
                        continue
                    e2 = entry
                    for op in row["table"]:
                        e2 = "ours" if op == "install" else "absent"
                    if not isinstance(row["rc"], int) or not isinstance(row["patched"], bool):
                        inv_bad.append(f"{meth}: non-concrete successor state")
                        continue
                    if entry == "foreign" and "delete" in row["table"]:
                        inv_bad.append(f"{meth} deletes a dispatch-table entry the library did not install")
                    if not I(row["rc"], row["patched"], e2):
                        inv_bad.append(f"{meth} from (refcount={rc}, patched={patched}, entry={entry}) reaches (refcount={row['rc']}, patched={row['patched']}, entry={e2}), which breaks the invariant (the entry would leak or be removed under a running copy)")
    rep.oblige("C20.INV", "inductive invariant", not inv_bad, "; ".join(inv_bad[:1]))
    for b in sorted(set(inv_bad))[:3]:
        rep.violate(Violation("C20.INV", f"C20.INV|{b[:90]}", f"_modules_copyable: {b}", "", "_modules_copyable"))

    # ---- PERS
    rep.rules["C20.PERS"] = "state fields are assigned only at creation (guarded) or by enter/exit; creation is locked"
    bad = []
    STATE = {"lock", "refcount", "patched_table"}
    for name, defs in ci.methods.items():
        fn = defs[0].node
        for n in ast.walk(fn):
            tg = []
            if isinstance(n, ast.Assign):
                tg = n.targets
            elif isinstance(n, ast.AugAssign):
                tg = [n.target]
            for t in tg:
                if isinstance(t, ast.Attribute) and t.attr in STATE:
                    if name in ("__enter__", "__exit__") and t.attr != "lock":
                        continue
                    # must be inside an `if not hasattr(cls, "__instance__")`-style first-time guard
                    guarded = False
                    for g in ast.walk(fn):
                        if isinstance(g, ast.If) and any(x is n for x in ast.walk(g)) and \
                                ("__instance__" in ast.unparse(g.test) or "hasattr(self" in ast.unparse(g.test)):
                            guarded = True
                    if not guarded and name.startswith("_") and not name.startswith("__"):
                        # a private helper: guarded if every call of it sits under the first-time guard
                        sites = []
                        for on, odefs in ci.methods.items():
                            for c_ in ast.walk(odefs[0].node):
                                if isinstance(c_, ast.Call) and isinstance(c_.func, ast.Attribute) and c_.func.attr == name \
                                        and ast.unparse(c_.func.value) in ("cls", "self", ci.name):
                                    g_ok = any(isinstance(g, ast.If) and any(x is c_ for x in ast.walk(g)) and "__instance__" in ast.unparse(g.test)
                                               for g in ast.walk(odefs[0].node))
                                    sites.append(g_ok)
                        guarded = bool(sites) and all(sites)
                    if not guarded:
                        bad.append((name, t.attr, n.lineno))
    for name, attr, ln in bad:
        rep.violate(Violation("C20.PERS", f"C20.PERS|{name}|{attr}",
                              f"_modules_copyable.{name} (re)assigns `{attr}` without a first-time guard: __new__ returns the shared instance, so every nested use resets the bookkeeping of the copies in progress",
                              f"{mod.relpath}:{ln}", f"_modules_copyable.{name}"))
    rep.oblige("C20.PERS", "no unguarded re-initialisation", not bad, str(bad))
    new = ci.methods.get("__new__")
    ok = False
    if new:
        for w in [n for n in ast.walk(new[0].node) if isinstance(n, ast.With)]:
            if any(isinstance(x, ast.If) and "__instance__" in ast.unparse(x.test) for x in ast.walk(w)):
                ok = True
    rep.oblige("C20.PERS", "singleton creation under a lock", ok)
    if not ok:
        rep.violate(Violation("C20.PERS", "C20.PERS|creation-lock", "_modules_copyable.__new__ creates the shared instance with an unlocked check-then-set (two threads can create two instances with separate counters)",
                              f"{mod.relpath}:{new[0].node.lineno}" if new else "", "_modules_copyable.__new__"))


def check(ctx, rep):
    from . import metarules, shared
    _check_main(ctx, rep)
    from . import metarules, r5rules
    r5rules.modules_copyable_sites(ctx, rep, "C20.REGION")
    metarules.deepcopy_callers(ctx, rep, "C20.DC")
    metarules.publication_last(ctx, rep, "C20.PERS", "_modules_copyable.__new__", "cls.__instance__")
