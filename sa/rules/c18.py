"""C18 — Alias mirrors its target until overridden; passthrough writes reach the target.

A two-variable protocol (target, local override) with boolean options: decided exhaustively by
decision tables (see C12).
C18.T  Alias.__get__/__set__/__delete__ vs the oracle       C18.P  path parser acceptance
C18.D  DeprecatedAlias: warn, then delegate unchanged
"""
from __future__ import annotations

import ast

from ..common import Outcome
from ..model import AnalysisError
from ..report import Report, Violation
from ..runs import run_function
from ..values import ARG, CLS, FRESH, IMM, RECV, Const, ExcV, Sym, vrepr
from . import dtable
from .base import get_ctx, pmap, walk_own

META = {"assumptions": ["the transform callback is opaque", "target objects are ordinary Python objects"],
        "trusted": ["sa abstract interpreter", "stdlib ast"]}

FIELDS = {"attr", "transform", "passthrough", "fallback", "_owner", "_owner_attr", "_attr_path"}


def _stub_lookup(interp, st, args, kwargs, frame, node):
    a = [x for x in args if not isinstance(x, tuple)] + [v for k_, v in kwargs.items() if k_ != "**"]   # positional or keyword call
    path = a[2] if len(a) > 2 else a[-1]
    whole = isinstance(path, Sym) and not any("[:]" in str(c) for c in path.tok)
    name = "target" if whole else "parent"
    outs = []
    for s, fails in interp.decide(st, ("lookup_fails", name)):
        if fails:
            s.emit("R", "AttributeError", "lookup", interp.site(frame, node))
            outs.append(Outcome("exc", s, ExcV("AttributeError", "lookup:" + name)))
        else:
            outs.append(Outcome("ok", s, Sym((name,), {RECV})))
    return outs


def _classify(k):
    r = repr(k)
    if k[0] == "is" and k[1] == ("instance",):
        return ("instance_none", True)
    if k[0] in ("truthy", "is") and isinstance(k[1], tuple) and k[1][:1] == ("self",):
        f = k[1][-1].lstrip(".")
        if f == "_owner_attr":
            return ("bound", True)
        if f == "passthrough":
            return ("passthrough", True)
        if f == "transform":
            return ("has_transform", k[0] == "truthy")
        if f == "fallback":
            return ("fallback_missing", True)
    if k[0] == "hasattr" and k[1] == ("instance",):
        return ("override_present", True)
    if k[0] == "is" and k[1][:1] == ("instance",) and len(k[1]) == 2 and k[2] == ("C", "NoneType", "None"):
        return ("override_value_is_none", True)
    if k[0] == "truthy" and k[1][:1] == ("instance",) and len(k[1]) == 2:
        return ("override_value_truthy", True)
    if k[0] == "lookup_fails":
        return ("target_missing" if k[1] == "target" else "parent_missing", True)
    if k[0] == "pred" and k[1] == "startswith":
        return ("last_is_item", True)
    if k[0] == "uraise":
        return ("transform_raises", True)
    if k[0] == "caught":
        return ("transform_exc_is_attribute_error" if "AttributeError" in r or True else "x", True)
    if k[0] in ("isinstance", "immutable"):
        return ("fallback_immutable", True)
    return None


def _outcome(o):
    ws = []
    for e in o.state.trace:
        if e[0] == "W":
            tgt = "override" if e[2] == "instance" else ("target" if e[2] in ("parent", "target") else e[2])
            ws.append((("set" if e[1] in ("setattr()", "setitem") else "del"), tgt,
                       "item" if e[1] in ("setitem", "delitem") else "attr"))
    us = tuple("transform" if "transform" in e[1] else e[1] for e in o.state.trace if e[0] == "U")
    if o.kind == "ok":
        v = vrepr(o.value)
        if v.startswith("copy/") or "copy" in v.split("/")[0]:
            v = "fresh-copy-of-fallback" if "fallback" in v else "copy"
        elif v.startswith("call/"):
            v = "transformed"
        elif v.startswith("instance/"):
            v = "override"
        elif v == "self/.fallback":
            v = "fallback-itself"
        res = ("return", v)
    else:
        res = ("raise", o.value.cls)
    return (res, tuple(ws), us)


def worker(meth):
    ctx = get_ctx()
    ci = ctx.p.find_class("Alias")
    c, m = ctx.p.lookup_method(ci, meth)
    selfv = Sym(("self",), {CLS})
    args = {"__get__": [selfv, Sym(("instance",), {RECV}), Sym(("owner",), {CLS})],
            "__set__": [selfv, Sym(("instance",), {RECV}, tags={"nonsentinel"}), Sym(("value",), {ARG}, tags={"nonsentinel"})],
            "__delete__": [selfv, Sym(("instance",), {RECV}, tags={"nonsentinel"})]}[meth]

    def conf(cfg):
        cfg.sym_classes[("self",)] = ci
        cfg.sym_method_filter = lambda c_, name: name not in FIELDS
        cfg.record_decisions = True
        cfg.fact_defaults.clear()
        cfg.stubs["Alias.__lookup_attr_path"] = _stub_lookup
        cfg.stubs["Alias._Alias__lookup_attr_path"] = _stub_lookup
    it, outs = run_function(ctx.p, ctx.H, m[0], args, {}, configure=conf)
    rows = dtable.build_rows(outs, _classify, _outcome)
    return [(a, out) for a, out, _ in rows], sorted(it.functions_entered)


def oracle_get(a):
    if a["instance_none"]:
        return (("return", "self"), (), ())
    if a["bound"] and not a["passthrough"] and a["override_present"]:
        return (("return", "override"), (), ())
    if not a["target_missing"]:
        if a["has_transform"]:
            if a["transform_raises"]:
                return None      # the statement does not say what a failing transform yields
            return (("return", "transformed"), (), ("transform",))
        return (("return", "target"), (), ())
    if not a["fallback_missing"]:
        # an immutable atom may be handed out itself; anything else must be a fresh copy
        return (("return", "fresh-copy-of-fallback" if not a["fallback_immutable"] else "self/.fallback-imm"), (), ())
    return (("raise", "AttributeError"), (), ())


def oracle_set(a):
    if a["passthrough"]:
        if a["parent_missing"]:
            return (("raise", "AttributeError"), (), ())
        return (("return", "None"), (("set", "target", "item" if a["last_is_item"] else "attr"),), ())
    if not a["bound"]:
        return (("raise", "RuntimeError"), (), ())
    return (("return", "None"), (("set", "override", "attr"),), ())


def oracle_delete(a):
    if a["passthrough"]:
        if a["parent_missing"]:
            return (("raise", "AttributeError"), (), ())
        return (("return", "None"), (("del", "target", "item" if a["last_is_item"] else "attr"),), ())
    if not a["bound"]:
        return (("raise", "RuntimeError"), (), ())
    return (("return", "None"), (("del", "override", "attr"),), ())


DOMAINS = {"__get__": ["instance_none", "bound", "passthrough", "override_present", "target_missing", "has_transform",
                       "transform_raises", "fallback_missing", "fallback_immutable"],
           "__set__": ["passthrough", "bound", "parent_missing", "last_is_item"],
           "__delete__": ["passthrough", "bound", "parent_missing", "last_is_item"]}
ORACLES = {"__get__": oracle_get, "__set__": oracle_set, "__delete__": oracle_delete}


def _norm_get(out):
    res, ws, us = out
    if res == ("return", "fallback-itself"):
        res = ("return", "self/.fallback-imm")      # pass-through of an immutable fallback (protect_via_deepcopy)
    return (res, ws, us)


def _warns(ctx, dci, stmt):
    """`stmt` is `warnings.warn(...)` or a call of a method of the class on self whose body calls warnings.warn
    outside any condition."""
    if not (isinstance(stmt, ast.Expr) and isinstance(stmt.value, ast.Call)):
        return False
    f = stmt.value.func
    if ast.unparse(f) in ("warnings.warn", "warn"):
        return True
    if isinstance(f, ast.Attribute) and isinstance(f.value, ast.Name) and f.value.id == "self":
        for name in (f.attr, f"_{dci.name}{f.attr}"):
            r = ctx.p.lookup_method(dci, name)
            if r and r[1]:
                return any(isinstance(s_, ast.Expr) and isinstance(s_.value, ast.Call) and ast.unparse(s_.value.func) in ("warnings.warn", "warn")
                           for s_ in r[1][0].node.body)
    return False


def _check_main(ctx, rep: Report):
    rep.extra["exhaustive"] = True
    rep.rules["C18.T"] = "exhaustive decision tables of Alias.__get__/__set__/__delete__ vs the oracle"
    for meth in ("__get__", "__set__", "__delete__"):
        rows, fns = worker(meth)
        rep.functions |= set(fns)
        rep.evaluations += len(rows)
        if meth == "__get__":
            rows = [(a, _norm_get(o)) for a, o in rows]
            # a failing transform: only the statement-relevant rows are compared
            rows = [(a, o) for a, o in rows if not a.get("transform_raises")]
        for a, out in rows:
            rep.nontrivial.add((meth, tuple(sorted(a.items())), out))
        dom = list(DOMAINS[meth])
        extra = {k for a, _ in rows for k in a} - set(dom) - {"transform_exc_is_attribute_error"}
        known = {x for d_ in DOMAINS.values() for x in d_} | {"override_value_is_none", "override_value_truthy"}
        dom += sorted(extra & known)
        if extra - known:
            raise AnalysisError(f"C18.T {meth}: conditions outside the modelled protocol: {sorted(extra - known)}")
        n, mism = dtable.compare([(a, o, None) for a, o in rows], ORACLES[meth], dom,
                                 constraint=lambda a: not a.get("transform_raises"))
        rep.oblige("C18.T", f"Alias.{meth}", not mism, f"{n} assignments, {len(rows)} rows")
        rep.sample({"entry": f"Alias.{meth}", "rows": [[a, repr(o)] for a, o in rows[:3]]})
        for msg in dtable.summarize(mism):
            rep.violate(Violation("C18.T", f"C18.T|Alias.{meth}|{msg[:100]}", f"Alias.{meth} departs from the alias protocol: {msg}", "", f"Alias.{meth}"))

    # ---- P
    rep.rules["C18.P"] = "path parser: whole string must be consumed; item lookups via ast.literal_eval"
    ci = ctx.p.find_class("Alias")
    c, m = ctx.p.lookup_method(ci, "_attr_path")
    src = ast.unparse(m[0].node)
    bad = []
    if "join" not in src or "== self.attr" not in src.replace("!=", "==") or "ValueError" not in src:
        bad.append("_attr_path no longer rejects strings the parser does not fully consume")
    c2, m2 = ctx.p.lookup_method(ci, "_Alias__lookup_attr_path")
    if m2 is None:
        c2, m2 = ctx.p.lookup_method(ci, "__lookup_attr_path")
    src2 = ast.unparse(m2[0].node) if isinstance(m2, list) else ""
    if isinstance(m2, list):
        from .base import referenced_functions
        nodes = [m2[0].node] + [g.node for g in referenced_functions(ctx.p, m2[0])]   # step function may be a module-level helper
    else:
        nodes = []
    calls = [n for fnode in nodes for n in ast.walk(fnode) if isinstance(n, ast.Call)]
    has_eval = any(ast.unparse(n.func).endswith("literal_eval") for n in calls)
    has_getattr = any(isinstance(n.func, ast.Name) and n.func.id == "getattr" and len(n.args) == 2 for n in calls)
    if not has_eval or not has_getattr:
        bad.append("path elements are no longer resolved by getattr / literal_eval item lookup")
    if "(AttributeError, KeyError)" not in src2 or "raise AttributeError" not in src2:
        bad.append("a missing key/attribute along the path is no longer reported as AttributeError (fallback would not apply)")
    # sibling agreement inside the path grammar: the ["k"] and ['k'] alternatives are the same pattern up to the quote
    import re._parser as sre
    pat = None
    for n_ in ast.walk(ci.node):
        if isinstance(n_, ast.Assign) and any(ast.unparse(t) == "ATTR_PARSER" for t in n_.targets) and isinstance(n_.value, ast.Call) and n_.value.args \
                and isinstance(n_.value.args[0], ast.Constant) and isinstance(n_.value.args[0].value, str):
            pat = n_.value.args[0].value
    if pat is None:
        raise AnalysisError("C18.P: ATTR_PARSER pattern not found as a string constant")

    def norm(x):
        if isinstance(x, sre.SubPattern):
            return tuple(norm(i) for i in x)
        if isinstance(x, (list, tuple)):
            return tuple(norm(i) for i in x)
        if x in (34, 39):
            return "Q"
        return str(x) if not isinstance(x, (int, str, type(None))) else x
    try:
        tree = sre.parse(pat)
    except Exception as e:
        raise AnalysisError(f"C18.P: ATTR_PARSER does not parse: {e}")
    alts = []

    def find(x):
        for op, av in x:
            if op == sre.SUBPATTERN:
                find(av[3])
            elif op == sre.BRANCH and not alts:
                alts.extend(av[1])
            elif op in (sre.MAX_REPEAT, sre.MIN_REPEAT):
                find(av[2])
    find(tree)
    quoted = [a_ for a_ in alts if any(op == sre.LITERAL and av in (34, 39) for op, av in a_)]
    if len(quoted) != 2:
        raise AnalysisError(f"C18.P: expected two quoted-item alternatives in ATTR_PARSER, found {len(quoted)}")
    if norm(quoted[0]) != norm(quoted[1]):
        bad.append("the [\"key\"] and ['key'] alternatives of the path grammar are different patterns: a path accepted with one kind of quotes is rejected with the other (e.g. a[\"k\"].b)")
    rep.oblige("C18.P", "Alias._attr_path / __lookup_attr_path", not bad, "; ".join(bad))
    for b in bad:
        rep.violate(Violation("C18.P", f"C18.P|{b[:50]}", f"Alias: {b}", f"{m[0].module.relpath}:{m[0].node.lineno}", "Alias._attr_path"))

    # ---- D
    rep.rules["C18.D"] = "DeprecatedAlias: __warn() then super().<method>(own arguments) unchanged"
    dci = ctx.p.find_class("DeprecatedAlias")
    for meth in ("__get__", "__set__", "__delete__"):
        mm = dci.methods.get(meth)
        bad = []
        if not mm:
            bad.append(f"DeprecatedAlias no longer overrides {meth}: no deprecation warning on that access")
        else:
            body = [s for s in mm[0].node.body if not (isinstance(s, ast.Expr) and isinstance(s.value, ast.Constant))]
            params = [a.arg for a in mm[0].node.args.args][1:]
            if not (body and _warns(ctx, dci, body[0])):
                bad.append("does not warn first")
            rest = body[1:]
            want = f"super().{meth}({', '.join(params)})"
            got = ast.unparse(rest[0].value) if rest and isinstance(rest[0], (ast.Return, ast.Expr)) and rest[0].value is not None else ""
            if len(rest) != 1 or got != want:
                bad.append(f"does not simply delegate to `{want}`")
            if meth == "__get__" and rest and not isinstance(rest[0], ast.Return):
                bad.append("does not return the delegated result")
        rep.oblige("C18.D", f"DeprecatedAlias.{meth}", not bad, "; ".join(bad))
        for b in bad:
            rep.violate(Violation("C18.D", f"C18.D|{meth}|{b[:50]}", f"DeprecatedAlias.{meth}: {b}", "", f"DeprecatedAlias.{meth}"))

    # ---- COPY: the per-instance override lives in the instance __dict__; copies must carry it (shared with C02.DC)
    rep.rules["C18.COPY"] = "__deepcopy__ drops no __dict__ entry (a local alias override survives copy-on-write helpers and deepcopy)"
    from .c02 import dc_worker
    r = pmap(dc_worker, [0])[0]
    dropped = []
    for row in r["rows"]:
        d = row["dec"]
        if row["kind"] == "ok" and not d.get("class_do_not_copy") and not row["stores"] \
                and (row.get("entered") or any(k in d for k in ("attr_do_not_copy", "ismethod", "attr_spec_found"))):
            dropped.append(str({k: v for k, v in d.items() if not isinstance(k, str) or "pred" in k or "truthy" in k or k in ("ismethod", "attr_do_not_copy")}))
    rep.oblige("C18.COPY", "DeepCopyMethod.deepcopy", not dropped)
    for dd in dropped[:1]:
        rep.violate(Violation("C18.COPY", "C18.COPY|dropped", f"__deepcopy__ skips some instance __dict__ entries ({dd[:160]}): the alias override slot (`__spec_classes_Alias_<name>_override`) is lost by with_*/deepcopy and the alias silently reverts to mirroring its target",
                              "", "DeepCopyMethod.deepcopy"))


def check(ctx, rep):
    from . import metarules, shared
    _check_main(ctx, rep)
    from . import metarules, r5rules
    r5rules.nearest_stop(ctx, rep, "C18.DEFAULT")
    r5rules.mutate_value_inplace_sites(ctx, rep, "C18.MV")
    shared.unused_params(ctx, rep, "C18.PARAM", ["spec_classes.types.alias"], floor=5)
    from .c02 import pt_rule
    pt_rule(ctx, rep, "C18.COPYSET")
    from .c01 import w_rule
    w_rule(ctx, rep, "C18.COW", lambda h, t: h.family in ("sequence", "mapping", "set"))
    from .c08 import peer_rule
    peer_rule(ctx, rep, "C18.PEER")    # reset_<alias>() works on a deep copy (a forwarded deletion must not reach the original)
    metarules.override_slot_name(ctx, rep, "C18.SLOT")
