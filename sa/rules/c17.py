"""C17 — every generated method accepts exactly what its advertised signature says.

Methods are synthesised as text at run time; the check works on the three places that determine the
result: the builder chains, the implementations' def signatures, and the exec template.
C17.SIG  builder <-> implementation agreement for the 19 helpers and __init__ (names, kinds, defaults,
         virtual keywords need **kw); _inplace/_if keyword-only with defaults False/True everywhere
C17.NEST the type handed to with_spec_attrs_for is the one whose attributes the implementation applies
         the keywords to; truth table of the init-enabled / overflow filter
C17.V    validate_attrs(kwargs) precedes implementation(...) in the generated body and rejects every
         name outside the virtual parameters with TypeError
C17.KIND parameter-kind tables of the call/definition string generators over all 5 kinds; advertised
         signature = real arguments (minus the **kwargs collector) + virtual arguments
C17.LIVE every advertised parameter reaches the behaviour (shared with C05.LIVE)
"""
from __future__ import annotations

import ast

from ..model import AnalysisError
from ..report import Report, Violation
from ..scenarios import core_impl
from . import boolfn
from .base import get_ctx, walk_own

META = {"assumptions": ["the generator is analysed, not its exec output", "inspect.Signature/Parameter behave as documented"],
        "trusted": ["stdlib ast"]}

KINDS = ["POSITIONAL_ONLY", "POSITIONAL_OR_KEYWORD", "VAR_POSITIONAL", "KEYWORD_ONLY", "VAR_KEYWORD"]


def _chain(build_node):
    """[(method, args, kwargs)] of the MethodBuilder(...) fluent chain in a build_method.  Reads the chained expression
    form and the sequential form `b = MethodBuilder(...); b = b.with_x(...); return b.build()`."""
    assigns = {}
    for n in ast.walk(build_node):
        if isinstance(n, ast.Assign) and len(n.targets) == 1 and isinstance(n.targets[0], ast.Name):
            assigns.setdefault(n.targets[0].id, []).append(n)
    chains = []
    for n in ast.walk(build_node):
        if isinstance(n, ast.Call) and isinstance(n.func, ast.Attribute) and n.func.attr == "build":
            cur = n.func.value
            before = n.lineno
            links = []
            hops = 0
            while hops < 64:
                hops += 1
                if isinstance(cur, ast.Call):
                    if isinstance(cur.func, ast.Attribute):
                        links.append((cur.func.attr, cur.args, {k.arg: k.value for k in cur.keywords}))
                        cur = cur.func.value
                    else:
                        links.append(("<ctor>", cur.args, {k.arg: k.value for k in cur.keywords}))
                        break
                elif isinstance(cur, ast.Name):
                    prev = [a for a in assigns.get(cur.id, []) if a.lineno < before]
                    if not prev:
                        break
                    a = max(prev, key=lambda a: a.lineno)
                    before = a.lineno
                    cur = a.value
                else:
                    break
            chains.append(list(reversed(links)))
    return chains


def _dealias(fnode, expr):
    """Source of `expr` with single-assignment local aliases (`x = self.attr_spec`) substituted."""
    assigns = {}
    for n in ast.walk(fnode):
        if isinstance(n, ast.Assign) and len(n.targets) == 1 and isinstance(n.targets[0], ast.Name):
            assigns.setdefault(n.targets[0].id, []).append(n.value)

    class Sub(ast.NodeTransformer):
        depth = 0

        def visit_Name(self, node):
            vs = assigns.get(node.id)
            if vs and len(vs) == 1 and isinstance(node.ctx, ast.Load) and isinstance(vs[0], (ast.Attribute, ast.Name, ast.BoolOp, ast.IfExp)) \
                    and node.id not in {x.id for x in ast.walk(vs[0]) if isinstance(x, ast.Name)} and self.depth < 4:
                self.depth += 1
                try:
                    return self.visit(ast.parse(ast.unparse(vs[0]), mode="eval").body)
                finally:
                    self.depth -= 1
            return node
    import copy as _copy
    return ast.unparse(Sub().visit(_copy.deepcopy(expr)))


def _impl_sig(h):
    a = h.impl.node.args
    pos = [p.arg for p in a.posonlyargs + a.args]
    skip = 2 if h.bound_attr_spec else 1
    if h.impl_name == "init":
        skip = 2      # spec_cls, self
    npos = len(pos)
    ndef = len(a.defaults)
    out = {}
    for i, name in enumerate(pos):
        if i < skip - 1:
            continue
        d = a.defaults[i - (npos - ndef)] if i >= npos - ndef else None
        out[name] = ("positional", d)
    for p, d in zip(a.kwonlyargs, a.kw_defaults):
        out[p.arg] = ("keyword_only", d)
    return out, (a.kwarg.arg if a.kwarg else None)


def v_rule(ctx, rep, rule="C17.V"):
    # ---- V
    rep.rules[rule] = "exec template order; validate_attrs rejects unknown names"
    b = ctx.p.find_function("MethodBuilder.build")
    execs = [n for n in walk_own(b.node) if isinstance(n, ast.Call) and ast.unparse(n.func) == "exec"]
    bad = []
    if not execs:
        bad.append("exec template not found")
    else:
        from .base import with_callees
        from .c16 import _guards_of
        tmpl_fn, js = b, [n for n in ast.walk(execs[0]) if isinstance(n, ast.JoinedStr)]
        if not js:      # the source text may be rendered by a private method of the builder
            for g_ in with_callees(ctx.p, b, 1):
                cand = [n for n in ast.walk(g_.node) if isinstance(n, ast.JoinedStr) and "return implementation(" in ast.unparse(n)]
                if cand and g_ is not b:
                    tmpl_fn, js = g_, cand
        flat = []
        for part in (js[0].values if js else []):
            if isinstance(part, ast.Constant):
                flat.append(("text", part.value))
            else:
                src_ = ast.unparse(part.value)
                if isinstance(part.value, ast.Name):
                    # a placeholder variable: reconstruct "<text> if <guards> else ''" from its assignments
                    asg = [n for n in walk_own(tmpl_fn.node) if isinstance(n, ast.Assign) and len(n.targets) == 1 and ast.unparse(n.targets[0]) == part.value.id
                           and isinstance(n.value, ast.Constant) and isinstance(n.value.value, str)]
                    pos_ = [n for n in asg if "validate_attrs(kwargs)" in n.value.value]
                    if pos_ and all(n.value.value == "" for n in asg if n not in pos_):
                        src_ = "'validate_attrs(kwargs)' if " + " and ".join(_guards_of(tmpl_fn.node, pos_[0])) + " else ''"
                flat.append(("expr", src_))
        i_val = next((i for i, p in enumerate(flat) if p[0] == "expr" and "validate_attrs(kwargs)" in p[1]), None)
        i_impl = next((i for i, p in enumerate(flat) if p[0] == "text" and "return implementation(" in p[1]), None)
        if i_val is None or i_impl is None or i_val > i_impl:
            bad.append("validate_attrs(kwargs) is not emitted before `return implementation(...)`: unknown keywords reach the implementation")
        else:
            # validation is the first statement of the generated wrapper: nothing may run (or return) before it
            rendered = "".join(p_[1] if p_[0] == "text" else f"\u27e6{i}\u27e7" for i, p_ in enumerate(flat))
            lines_ = rendered.splitlines()
            i_def = next((i for i, l_ in enumerate(lines_) if l_.lstrip().startswith("def ")), None)
            i_vl = next((i for i, l_ in enumerate(lines_) if f"\u27e6{i_val}\u27e7" in l_), None)
            if i_def is None or i_vl is None or any(l_.strip() for l_ in lines_[i_def + 1:i_vl]):
                between_ = [l_.strip() for l_ in lines_[(i_def or 0) + 1:(i_vl or 0)] if l_.strip()]
                between_ = [flat[int(b_.strip("\u27e6\u27e7"))][1] if b_.startswith("\u27e6") and b_.endswith("\u27e7") and b_.strip("\u27e6\u27e7").isdigit() else b_ for b_ in between_]
                bad.append(f"the generated wrapper executes `{'; '.join(between_)[:80]}` before validate_attrs(kwargs): a call with an unknown keyword can return (or act) without raising TypeError")
            cond = flat[i_val][1]
            if "self.method_args_virtual" not in cond or "check_attrs_match_sig" not in cond:
                bad.append("validation is not tied to (virtual arguments exist and no virtual **kwargs)")
            between = "".join(p[1] for p in flat[i_val + 1:i_impl + 1] if p[0] == "text")
            if "return implementation(" not in between:
                bad.append("template shape changed")
    from .base import with_private_callees
    va = [(g_, n) for g_ in with_private_callees(ctx.p, b) for n in ast.walk(g_.node) if isinstance(n, ast.FunctionDef) and n.name == "validate_attrs"]
    if not va:
        bad.append("validate_attrs not defined")
    else:
        encl, vfn = va[0]
        s = ast.unparse(vfn)
        guards = [n for n in ast.walk(vfn) if isinstance(n, ast.If) and any(isinstance(x, ast.Raise) and "TypeError" in ast.unparse(x) for x in ast.walk(n))]
        exact = [g for g in guards if isinstance(g.test, ast.Compare) and len(g.test.ops) == 1 and isinstance(g.test.ops[0], ast.NotIn)
                 and isinstance(g.test.comparators[0], ast.Name)]
        if not exact or "raise TypeError" not in s:
            bad.append("validate_attrs no longer raises TypeError for every name outside the advertised virtual parameters"
                       + (f" (guard is `{ast.unparse(guards[0].test)}`)" if guards else ""))
        else:
            setname = exact[0].test.comparators[0].id
            defs = [n for n in ast.walk(encl.node) if isinstance(n, ast.Assign) and len(n.targets) == 1 and ast.unparse(n.targets[0]) == setname]
            ok_set = len(defs) == 1 and isinstance(defs[0].value, ast.SetComp) and len(defs[0].value.generators) == 1 \
                and not defs[0].value.generators[0].ifs and ast.unparse(defs[0].value.generators[0].iter) == "self.method_args_virtual" \
                and isinstance(defs[0].value.generators[0].target, ast.Name) \
                and ast.unparse(defs[0].value.elt) == defs[0].value.generators[0].target.id + ".name"
            if not ok_set:
                bad.append("VALID_KWARGS is no longer exactly the names of the virtual parameters")
    if "method.__signature__ = signature_advertised" not in ast.unparse(b.node):
        bad.append("the advertised signature is not installed as __signature__")
    rep.oblige(rule, "MethodBuilder.build", not bad, "; ".join(bad))
    for x in bad:
        rep.violate(Violation(rule, f"{rule}|{x[:60]}", f"MethodBuilder.build: {x}", f"{b.module.relpath}:{b.node.lineno}", "MethodBuilder.build"))


def _check_main(ctx, rep: Report):
    helpers = dict(ctx.helpers)
    init_h = core_impl(ctx.H, "init")
    all_h = list(helpers.values()) + [init_h]
    # ---- SIG / NEST
    rep.rules["C17.SIG"] = "builder chain vs implementation signature"
    rep.rules["C17.NEST"] = "nested-attribute keyword source type"
    for h in all_h:
        chains = _chain(h.build.node)
        hid = h.id
        if len(chains) != 1:
            raise AnalysisError(f"C17.SIG: {hid}: {len(chains)} builder chains found")
        links = chains[0]
        impl, varkw = _impl_sig(h)
        bad, nest_bad = [], []
        args = []
        spec_for = None
        for name, a, kw in links:
            if name == "with_arg":
                an = a[0] if a else kw.get("name")
                aname = an.value if isinstance(an, ast.Constant) else ast.unparse(an)
                kind = kw.get("kind")
                kind = kind.value if isinstance(kind, ast.Constant) else ("positional_or_keyword" if kind is None else ast.unparse(kind))
                args.append((aname, kind, kw.get("default"), kw.get("only_if")))
            elif name == "with_spec_attrs_for":
                spec_for = _dealias(h.build.node, a[0]) if a else None
        rep.evaluations += 1
        for aname, kind, default, only_if in args:
            if aname == "spec_class_key":     # dynamic name: the key attribute (flows into **kwargs of init)
                if varkw is None:
                    bad.append("the key argument has no parameter to land in")
                continue
            if aname not in impl:
                if varkw is None:
                    bad.append(f"advertised parameter `{aname}` does not exist in the implementation")
                continue
            ikind, idef = impl[aname]
            if (kind == "keyword_only") != (ikind == "keyword_only"):
                bad.append(f"`{aname}` is {kind} in the signature but {ikind} in the implementation")
            if default is None and idef is not None and False:
                pass
        for pname, (ikind, idef) in impl.items():
            if pname == "self":
                continue
            if idef is None and pname not in [x[0] for x in args]:
                bad.append(f"implementation parameter `{pname}` has no default and is not supplied by the generated signature")
        for flag, dflt in (("_inplace", False), ("_if", True)):
            if h is init_h:
                continue
            found = [x for x in args if x[0] == flag]
            if not found:
                bad.append(f"`{flag}` is not advertised")
                continue
            aname, kind, default, _ = found[0]
            if kind != "keyword_only" or not (isinstance(default, ast.Constant) and default.value is dflt):
                bad.append(f"`{flag}` must be keyword-only with default {dflt}")
            if flag in impl:
                idef = impl[flag][1]
                if not (isinstance(idef, ast.Constant) and idef.value is dflt):
                    bad.append(f"implementation default of `{flag}` is not {dflt}")
        if spec_for is not None and varkw is None:
            bad.append("virtual nested-attribute keywords are advertised but the implementation has no **keywords to receive them")
        want = {"scalar": "self.attr_spec.type", "toplevel": "self.spec_cls", "core": "self.spec_cls"}.get(h.family, "self.attr_spec.item_spec_type")
        if varkw is not None:
            if spec_for != want:
                nest_bad.append(f"nested keywords are taken from `{spec_for}` but the implementation applies them to {want}")
        elif spec_for is not None:
            nest_bad.append("nested keywords advertised for an implementation that cannot take them")
        rep.oblige("C17.SIG", hid, not bad, "; ".join(bad[:2]))
        rep.oblige("C17.NEST", hid, not nest_bad, "; ".join(nest_bad))
        rep.nontrivial.add((hid, tuple(x[0] for x in args), spec_for))
        for b in bad:
            rep.violate(Violation("C17.SIG", f"C17.SIG|{hid}|{b[:70]}", f"{hid}: {b}", f"{h.build.module.relpath}:{h.build.node.lineno}", hid))
        for b in nest_bad:
            rep.violate(Violation("C17.NEST", f"C17.NEST|{hid}", f"{hid}: {b}", f"{h.build.module.relpath}:{h.build.node.lineno}", hid))
    rep.sample({"entry": "WithAttrMethod.build_method", "chain": [l[0] for l in _chain(helpers["WithAttrMethod.with_attr"].build.node)[0]]})

    # filter of with_spec_attrs_for
    rep.extra["exhaustive"] = True
    ws = ctx.p.find_function("MethodBuilder.with_spec_attrs_for")
    loops = [n for n in walk_own(ws.node) if isinstance(n, ast.For)]
    ok = False
    detail = "loop not found"
    if loops:
        body = [s for s in loops[0].body if not (isinstance(s, ast.Expr) and isinstance(s.value, ast.Constant))]
        ifs = [s for s in body if isinstance(s, ast.If) and s.body and isinstance(s.body[-1], ast.Continue) and not s.orelse]
        skip = None
        if ifs:
            skip = ifs[0].test if len(ifs) == 1 else ast.BoolOp(op=ast.Or(), values=[i.test for i in ifs])
        elif len(body) == 1 and isinstance(body[0], ast.If) and not body[0].orelse:
            skip = ast.UnaryOp(op=ast.Not(), operand=body[0].test)
        if skip is not None:
            def classify(n):
                t = _dealias(ws.node, n)
                if t == "attr_spec.init":
                    return ("init", True)
                if isinstance(n, ast.Compare) and isinstance(n.ops[0], (ast.In, ast.NotIn)) and "current_args" in t:
                    return ("already_arg", isinstance(n.ops[0], ast.In))
                if isinstance(n, ast.Compare) and isinstance(n.ops[0], (ast.Eq, ast.NotEq)) and "init_overflow_attr" in t:
                    return ("is_overflow", isinstance(n.ops[0], ast.Eq))
                return None
            try:
                tbl = boolfn.table(skip, classify, ["init", "already_arg", "is_overflow"])
                want = {(i, a, o): (not i) or a or o for i in (False, True) for a in (False, True) for o in (False, True)}
                ok = tbl == want
                detail = "" if ok else f"skip table {tbl}"
            except ValueError as e:
                raise AnalysisError(f"C17.NEST: {e}")
    rep.oblige("C17.NEST", "with_spec_attrs_for filter", ok, detail)
    if not ok:
        rep.violate(Violation("C17.NEST", "C17.NEST|filter", f"with_spec_attrs_for: the advertised nested keywords are not exactly the init-enabled attributes (minus existing arguments and the overflow attribute): {detail}",
                              f"{ws.module.relpath}:{ws.node.lineno}", "MethodBuilder.with_spec_attrs_for"))

    v_rule(ctx, rep)
    sv = ctx.p.find_function("MethodBuilder._signature_virtual")
    ok = "self.method_args[:-1] + self.method_args_virtual" in ast.unparse(sv.node)
    rep.oblige("C17.KIND", "_signature_virtual", ok)
    if not ok:
        rep.violate(Violation("C17.KIND", "C17.KIND|_signature_virtual", "the advertised signature is no longer the real arguments (minus the **kwargs collector) plus the virtual arguments", f"{sv.module.relpath}:{sv.node.lineno}", "MethodBuilder._signature_virtual"))

    # ---- KIND
    rep.rules["C17.KIND"] = "per-kind decision tables (5 kinds)"
    ic = ctx.p.find_function("MethodBuilder._method_signature_to_implementation_call")
    loops = [n for n in walk_own(ic.node) if isinstance(n, ast.For)]
    oracle = {"POSITIONAL_ONLY": "{name}", "POSITIONAL_OR_KEYWORD": "{name}={name}", "VAR_POSITIONAL": "*{name}",
              "KEYWORD_ONLY": "{name}={name}", "VAR_KEYWORD": "**{name}"}
    bad = []
    call_stmts = loops[0].body if loops else None
    if not loops:
        # comprehension form: ", ".join(render(name, p.kind) for name, p in ...) with a package-level renderer
        for comp in (n for n in walk_own(ic.node) if isinstance(n, (ast.GeneratorExp, ast.ListComp))):
            if isinstance(comp.elt, ast.Call) and isinstance(comp.elt.func, ast.Name):
                r_ = ctx.p.resolve_global(ic.module, comp.elt.func.id)
                if r_ and r_[0] == "func":
                    call_stmts = [x for x in r_[1].node.body if not (isinstance(x, ast.Expr) and isinstance(x.value, ast.Constant))]
        if call_stmts is None:
            raise AnalysisError("C17.KIND: loop not found in _method_signature_to_implementation_call")

    def branch_for(stmts, kind, flags=None):
        """Follow if/elif chains whose tests are `p.kind is <X>` (and flag names)."""
        acts = []
        for s in stmts:
            if isinstance(s, ast.If):
                def ev(t):
                    if isinstance(t, ast.BoolOp):
                        vs = [ev(v) for v in t.values]
                        return all(vs) if isinstance(t.op, ast.And) else any(vs)
                    if isinstance(t, ast.UnaryOp) and isinstance(t.op, ast.Not):
                        return not ev(t.operand)
                    if isinstance(t, ast.Compare) and isinstance(t.ops[0], (ast.Is, ast.IsNot, ast.Eq)) \
                            and (".kind" in ast.unparse(t.left) or ast.unparse(t.comparators[0]).split(".")[-1] in KINDS):
                        r = ast.unparse(t.comparators[0]).split(".")[-1] == kind
                        return r if not isinstance(t.ops[0], ast.IsNot) else not r
                    if isinstance(t, ast.Name) and flags is not None and t.id in flags:
                        return flags[t.id]
                    if isinstance(t, ast.Compare) and "default" in ast.unparse(t):
                        return flags.get("has_default", False) if flags else False
                    raise AnalysisError(f"C17.KIND: unrecognised test {ast.unparse(t)}")
                acts.extend(branch_for(s.body if ev(s.test) else s.orelse, kind, flags))
            else:
                acts.append(s)
            if acts and isinstance(acts[-1], ast.Return):
                break
        return acts
    for kind in KINDS:
        acts = branch_for(call_stmts, kind)
        appended = [ast.unparse(a.value.args[0]) for a in acts if isinstance(a, ast.Expr) and isinstance(a.value, ast.Call) and ast.unparse(a.value.func) == "out.append"]
        if not loops:
            appended = [ast.unparse(a.value) for a in acts if isinstance(a, ast.Return) and a.value is not None]
        got = appended[0].strip("f'\"") if appended else None
        if got is not None and not got.startswith(("{", "*")):
            got = "{" + got + "}" if got == "name" else got
        exp = oracle[kind]
        norm = (got or "").replace(" ", "")
        if appended and appended[0] == "name":
            norm = "{name}"
        rep.oblige("C17.KIND", f"implementation_call[{kind}]", norm == exp, f"{norm}")
        rep.nontrivial.add(("call", kind, norm))
        if norm != exp:
            bad.append(f"{kind}: forwards `{norm}` (expected `{exp}`)")
    for x in bad:
        rep.violate(Violation("C17.KIND", f"C17.KIND|call|{x[:50]}", f"_method_signature_to_implementation_call: {x}", f"{ic.module.relpath}:{ic.node.lineno}", "MethodBuilder._method_signature_to_implementation_call"))
    ds = ctx.p.find_function("MethodBuilder._method_signature_to_definition_str")
    loops = [n for n in walk_own(ds.node) if isinstance(n, ast.For)]
    bad = []
    for kind in KINDS:
        for done in (False, True):
            acts = branch_for(loops[0].body, kind, {"done_kw_only": done, "has_default": False})
            star = any(isinstance(a, ast.Expr) and ast.unparse(a.value) in ("out.append('*')",) for a in acts)
            sets_done = any(isinstance(a, ast.Assign) and ast.unparse(a.targets[0]) == "done_kw_only" and ast.unparse(a.value) == "True" for a in acts)
            exp_star = kind == "KEYWORD_ONLY" and not done
            exp_done = kind == "VAR_POSITIONAL" or exp_star
            rep.nontrivial.add(("def", kind, done, star, sets_done))
            ok = star == exp_star and (sets_done or not exp_done)
            rep.oblige("C17.KIND", f"definition_str[{kind},after_star={done}]", ok)
            if not ok:
                bad.append(f"{kind} (bare * already emitted={done}): emits *={star}, expected {exp_star}")
    src = ast.unparse(ds.node)
    if "DEFAULTS[" not in src or "defaults[p.name] = p.default" not in src:
        bad.append("defaults are no longer bound through DEFAULTS[name]")
    for x in sorted(set(bad)):
        rep.violate(Violation("C17.KIND", f"C17.KIND|def|{x[:60]}", f"_method_signature_to_definition_str: {x}", f"{ds.module.relpath}:{ds.node.lineno}", "MethodBuilder._method_signature_to_definition_str"))

    # ---- LIVE
    rep.rules["C17.LIVE"] = "advertised parameters are read by the implementation"
    for hid, h in helpers.items():
        ps = h.params()
        names = ps["positional"] + ps["kwonly"] + ([ps["varkw"]] if ps["varkw"] else [])
        loaded = {n.id for n in ast.walk(h.impl.node) if isinstance(n, ast.Name) and isinstance(n.ctx, ast.Load)}
        for n in names:
            ok = n in loaded
            rep.oblige("C17.LIVE", f"{hid}:{n}", ok)
            if not ok:
                rep.violate(Violation("C17.LIVE", f"C17.LIVE|{hid}|{n}", f"{hid}: advertised parameter `{n}` never reaches the behaviour", f"{h.impl.module.relpath}:{h.impl.node.lineno}", hid))


    # ---- LIVE (semantic): the tri-state _by_index keyword reaches the lookup mode (shared with C06.IDX)
    from .base import pmap
    from .c06 import byindex_worker
    modes = {r["mode"]: r for r in pmap(byindex_worker, ["default", "true", "false"])}
    bad = []
    if modes["true"]["checks"] or "getitem" not in modes["true"]["reads"] or "index" in modes["true"]["reads"]:
        bad.append("_by_index=True does not select the positional lookup")
    if modes["false"]["checks"] or "index" not in modes["false"]["reads"] or "getitem" in modes["false"]["reads"]:
        bad.append("_by_index=False is not honoured (the lookup mode is re-derived from the value's type)")
    if not modes["default"]["checks"]:
        bad.append("_by_index default no longer derives the mode from the element type")
    rep.oblige("C17.LIVE", "_by_index reaches SequenceMutator._extractor", not bad, "; ".join(bad))
    for b_ in bad:
        rep.violate(Violation("C17.LIVE", f"C17.LIVE|_by_index|{b_[:50]}", f"advertised keyword `_by_index`: {b_}", "", "SequenceMutator._extractor"))

    # ---- LIVE (pairs): transform(_transform=f, attr=g) / update(_new_value, attr=v): both keyword groups take effect together
    from ..runs import run_function
    from ..values import ARG, RECV, Const, Sym
    mv = ctx.p.find_function("mutate_value")

    def conf_mv(cfg):
        cfg.record_decisions = True
        cfg.user_may_raise = False
        cfg.loop_unroll = 1
        cfg.stubs.pop("mutate_value", None)
    kw = {"old_value": Sym(("old",), {RECV}, tags={"nonsentinel"}), "transform": Sym(("transform",), {ARG}),
          "attr_transforms": Sym(("attr_transforms",), {ARG}), "attrs": Sym(("attrs",), {ARG}), "inplace": Const(False)}
    missing = [k for k in kw if k not in [a.arg for a in mv.node.args.args + mv.node.args.kwonlyargs]]
    if missing:
        raise AnalysisError(f"C17.LIVE: mutate_value no longer takes {missing}")
    it, outs = run_function(ctx.p, ctx.H, mv, [], kw, configure=conf_mv)
    rep.functions |= set(it.functions_entered)
    rep.evaluations += len(outs)
    seen = {"transform": False, "attr_transforms": False, "attrs": False}
    combos = set()
    for o in outs:
        if o.kind != "ok":
            continue
        d = {k[1][0]: v for k, v in o.state.decisions if k[0] == "truthy" and len(k[1]) == 1 and k[1][0] in seen}
        eff = set()
        for e in o.state.trace:
            if e[0] == "U" and e[1] == "transform":
                eff.add("transform")
            if e[0] == "U" and str(e[1]).startswith("attr_transforms/"):
                eff.add("attr_transforms")
            if e[0] == "W" and "attrs/" in str(e[4]):
                eff.add("attrs")
        given = frozenset(k for k, v in d.items() if v)
        combos.add((given, frozenset(eff)))
    bad = []
    for pair in (("transform", "attr_transforms"), ("attrs", "transform"), ("attrs", "attr_transforms")):
        ok = any(set(pair) <= g and set(pair) <= e for g, e in combos)
        if not ok:
            bad.append(f"when both `{pair[0]}` and `{pair[1]}` are given, no path applies both: one of the two advertised keyword groups is silently ignored")
    if not combos:
        raise AnalysisError("C17.LIVE: mutate_value produced no normal path")
    rep.oblige("C17.LIVE", "mutate_value keyword groups are independent", not bad, "; ".join(bad))
    for b_ in bad:
        rep.violate(Violation("C17.LIVE", f"C17.LIVE|pair|{b_[:60]}", f"mutate_value: {b_}", f"{mv.module.relpath}:{mv.node.lineno}", "mutate_value"))

    # ---- LIVE (helper level): a helper that advertises **keywords looks at them on every normal path
    from ..runs import run_helper
    from ..values import FRESH, vrepr

    def conf_kw(cfg):
        cfg.record_decisions = True
        cfg.user_may_raise = False
        cfg.loop_unroll = 1

        def stub_with(interp, st, args, kwargs, frame, node):
            from ..common import Outcome
            # the funnel (with_<attr> / prepare_attr_value / mutate_attr) is summarised: what matters is what reaches it
            given = [vrepr(a_) for a_ in list(args) + list(kwargs.values()) if not isinstance(a_, tuple) and a_ is not None]
            st.emit("U", "funnel", "stub", tuple(given), interp.site(frame, node))
            return [Outcome("ok", st, Sym(("with_result",), {FRESH}))]
        cfg.stubs["WithAttrMethod.with_attr"] = stub_with
        cfg.stubs["mutate_attr"] = stub_with
        cfg.stubs["prepare_attr_value"] = stub_with
    nkw = 0
    for hid, h in helpers.items():
        kwname = h.params()["varkw"]
        if not kwname or h.family not in ("toplevel", "scalar"):
            continue
        nkw += 1
        it, outs = run_helper(ctx.p, ctx.H, h, inplace=False, shape="given", configure=conf_kw, cache=False)
        rep.functions |= set(it.functions_entered)
        rep.evaluations += len(outs)
        blind = []
        for o in outs:
            if o.kind != "ok":
                continue
            consulted = any((k[0] == "truthy" and len(k[1]) == 3 and str(k[1][1]).startswith("kwargs:")) or (kwname, "[]") == tuple(k[1])[:2]
                            or kwname in str(k[1]) for k, v in o.state.decisions if isinstance(k[1], tuple)) \
                or any(kwname in str(e) or "kwargs:" in str(e) for e in o.state.trace if e[0] in ("W", "U"))
            if not consulted:
                blind.append(vrepr(o.value))
        rep.oblige("C17.LIVE", f"{hid}: **{kwname} consulted on every normal path", not blind, str(sorted(set(blind))[:3]))
        if blind:
            rep.violate(Violation("C17.LIVE", f"C17.LIVE|kwgroup|{hid}", f"{hid}: a normal path returns `{sorted(set(blind))[0]}` without ever looking at the advertised keywords `**{kwname}`: they are accepted and silently ignored when combined with the other arguments",
                                  f"{h.impl.module.relpath}:{h.impl.node.lineno}", hid))
    if nkw < 4:
        raise AnalysisError(f"C17.LIVE: only {nkw} helpers with **keywords inspected (floor 4)")

    # paired keywords of mutate_value: a constructor is only usable together with the expected type (dict shorthand)
    npair = 0
    for fi_ in ctx.p.iter_functions():
        if fi_.is_lambda:
            continue
        for n_ in walk_own(fi_.node):
            if isinstance(n_, ast.Call) and ast.unparse(n_.func).split(".")[-1] == "mutate_value":
                kws = {k.arg: ast.unparse(k.value) for k in n_.keywords if k.arg}
                if "constructor" in kws or "expected_type" in kws:
                    npair += 1
                    want = {"constructor": "expected_type", "expected_type": "constructor"}
                    miss = [want[k] for k in ("constructor", "expected_type") if k in kws and want[k] not in kws]
                    ok = not miss
                    if ok:
                        a, b = kws["constructor"], kws["expected_type"]
                        ok = (a.endswith(".item_constructor") and b.endswith(".item_type")) or (a.endswith(".constructor") and not a.endswith("item_constructor") and b.endswith(".type") and not b.endswith("item_type"))
                    short_ = fi_.qualname.split(":")[-1]
                    rep.oblige("C17.LIVE", f"{short_}: constructor/expected_type paired", ok)
                    if not ok:
                        rep.violate(Violation("C17.LIVE", f"C17.LIVE|pairkw|{short_}", f"{short_} calls mutate_value with {sorted(k for k in kws if k in want)} only / mismatched: the dict-of-constructor-arguments shorthand (advertised for the value together with nested keywords) is no longer turned into an instance",
                                              f"{fi_.module.relpath}:{n_.lineno}", short_))
    if npair < 4:
        raise AnalysisError(f"C17.LIVE: only {npair} mutate_value calls with a constructor found (floor 4)")

    # ---- MEMO: the constructor-argument memo depends on the constructor only, never on the keywords of one call
    gfa = ctx.p.find_function("_get_function_args")

    def conf_gfa(cfg):
        cfg.user_may_raise = False
        cfg.loop_unroll = 1
        cfg.stubs.pop("_get_function_args", None)
    it, outs = run_function(ctx.p, ctx.H, gfa, [Sym(("function",), {ARG}), Sym(("attrs",), {ARG})], {}, configure=conf_gfa)
    rep.functions |= set(it.functions_entered)
    rep.evaluations += len(outs)
    memo_w = [e for o in outs for e in o.state.trace if e[0] == "W" and e[2] == "function"]
    bad = sorted({f"`{ctx.p.stmt_at(e[-1])[1]}` memoises a value computed from this call's keywords (`{e[5]}`) on the constructor: later calls with other keywords get the first call's answer"
                  for e in memo_w if "attrs" in str(e[5])})
    if not memo_w:
        rep.notes.append("C17.MEMO: _get_function_args keeps no memo on the constructor")
    rep.oblige("C17.LIVE", "_get_function_args memo is call-independent", not bad, "; ".join(bad))
    for b_ in bad:
        rep.violate(Violation("C17.LIVE", f"C17.LIVE|memo|{b_[:60]}", f"_get_function_args: {b_}", f"{gfa.module.relpath}:{gfa.node.lineno}", "_get_function_args"))

    # ---- REACH: keywords advertised by __init__ (all init-enabled attributes of the class, inherited ones included)
    # reach a constructor that applies them: parent constructors must span the whole MRO (shared with C09.PAR)
    rep.rules["C17.REACH"] = "every advertised constructor keyword reaches the constructor of the class that owns the attribute"
    from .c09 import init_worker as c09_init
    r = c09_init("own")
    parents = {e[1] for row in r["rows"] for e in row["trace"] if e[0] == "PARENT"}
    bad = [pz for pz in parents if ".mro()" not in pz]
    if not parents:
        bad = ["<no parent constructor call>"]
    rep.oblige("C17.REACH", "InitMethod.init parents", not bad, str(bad))
    for pz in bad:
        rep.violate(Violation("C17.REACH", "C17.REACH|parents-not-mro", f"the constructor advertises the attributes of every ancestor but only invokes the constructors of `{pz.split('/.__init__')[0]}`: a keyword for a grandparent-owned attribute is accepted and silently dropped",
                              "", "InitMethod.init"))


def check(ctx, rep):
    _check_main(ctx, rep)
    from . import metarules, r5rules
    metarules.for_class_rule(ctx, rep, "C17.META", ("attrs",))
    r5rules.forward_verbatim(ctx, rep, "C17.FWD")
    r5rules.varkw_not_rebound(ctx, rep, "C17.KW")
    from .c06 import inserter_tables_rule
    inserter_tables_rule(ctx, rep, "C17.INSERT")      # the advertised _index/_insert/replace flags reach the container operation
    from . import shared
    shared.unused_params(ctx, rep, "C17.PARAM", ["spec_classes.methods", "spec_classes.utils.method_builder"])
    shared.borrow(ctx, rep, "c06", {"C06.TRUTH": "C17.VALUE"})      # an advertised value (None, 0, '' included) reaches the behaviour as given
