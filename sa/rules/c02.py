"""C02 — derived copies share no mutable state with the original (do_not_copy excepted).

C02.S   nothing reachable from the receiver is stored into the fresh result of a copy-on-write helper
C02.RET mutate_attr (the funnel of all helpers) returns a fresh object whenever it writes
C02.DC  decision table of __deepcopy__: every __dict__ entry is deep-copied, except do_not_copy
        attributes (carried by identity) and bound methods of the instance itself
C02.PT  protect_via_deepcopy passes through immutable atoms only; everything else is deep-copied
"""
from __future__ import annotations

from ..model import AnalysisError
from ..report import Report, Violation
from ..runs import describe_path, run_function
from ..scenarios import core_impl, recv_sym
from ..values import ARG, CLS, FRESH, RECV, Const, Sentinel, Sym, vrepr
from . import provrun
from .base import get_ctx, immutable_reprs, pmap, wkey, is_imm

META = {
    "assumptions": [
        "user callbacks are opaque: may raise, may return an alias of an input, do not mutate library-visible state",
        "copy.deepcopy of a non-spec value returns a graph disjoint from its argument except for immutable atoms",
        "argument objects handed to the call may be shared with the result (the property allows it)",
    ],
    "trusted": ["sa abstract interpreter (finite provenance domain)", "copy.deepcopy model", "stdlib ast"],
}


def _keep(ev):
    # writes into a fresh object whose stored value is receiver-reachable
    if ev[0] != "W" or tuple(ev[3]) != (FRESH,):
        return None
    vp = ev[6] or ()
    if RECV not in vp:
        return None
    return ("W", ev[1], ev[2], ev[3], None, ev[5], tuple(vp), (), ev[8], ev[9])


RED = provrun.set_reducer(_keep)


def worker(task):
    r = provrun.run(task, RED, inplace=False)
    ctx = get_ctx()
    viols = []
    for p in r["paths"]:
        for e in p["trace"]:
            if is_imm(e[5], p["imm"]):
                continue
            viols.append({"key": wkey(ctx.p, "C02.S", e).replace("|FRESH|", "|stores-RECV|") + f"|entry:{r['task'][0]}", "site": e[-1],
                          "value": e[5], "how": e[1], "entry": r["entry"], "path": p["desc"]})
        if p["kind"] == "ok" and p["value"] != "self" and "RECV" in p["value_prov"] \
                and "FRESH" not in p["value_prov"] and p["value"] not in p["imm"] \
                and r["task"][0].split(".")[0] not in ("UpdateMethod", "TransformMethod"):
            viols.append({"key": f"C02.S|returns-RECV|{r['task'][0]}", "site": "", "value": p["value"],
                          "how": "return", "entry": r["entry"], "path": p["desc"]})
        if p["kind"] == "ok" and p["value"] == "self" and r["task"][0].split(".")[0] in ("ResetMethod", "ResetAttrMethod"):
            # (update / transform / with_* legitimately hand back the receiver when there is nothing to apply; a reset never does)
            viols.append({"key": f"C02.S|returns-self|{r['task'][0]}", "site": "", "value": "self",
                          "how": "return", "entry": r["entry"], "path": p["desc"]})
        if p["kind"] == "ok" and "RECV" in p.get("value_inner", []) and not is_imm(p["value"], p["imm"]):
            viols.append({"key": f"C02.S|shallow-result|{r['task'][0]}", "site": "", "value": p["value"],
                          "how": "shallow-copy", "entry": r["entry"], "path": p["desc"]})
    r["viols"] = viols
    for p in r["paths"]:
        p.pop("notes", None)
    return r


# ---------------------------------------------------------------- C02.RET
def ret_worker(variant):
    ctx = get_ctx()
    fi = ctx.p.find_function("mutate_attr")
    name, value, frozen = variant
    obj = recv_sym()
    attr = Sym(("attr",), {"IMM"})
    kw = {"obj": obj, "attr": attr, "value": value, "inplace": Const(False)}
    it, outs = run_function(ctx.p, ctx.H, fi, [], kw, frozen=frozen, do_not_copy=False,
                            deepcopy_mode="inline")
    rows = []
    for o in outs:
        ws = [e for e in o.state.trace if e[0] == "W" and e[1] in ("rawset", "setattr()", "setattr")]
        rows.append({"kind": o.kind, "ret": vrepr(o.value) if o.kind == "ok" else o.value.cls,
                     "ret_prov": sorted(o.value.prov) if isinstance(o.value, Sym) else [],
                     "writes": [(e[1], e[2], tuple(e[3])) for e in ws], "desc": describe_path(o, 8)})
    return {"variant": name, "frozen": frozen, "rows": rows, "functions": sorted(it.functions_entered)}


# ---------------------------------------------------------------- C02.DC
def dc_worker(_):
    ctx = get_ctx()
    fi = core_impl(ctx.H, "deepcopy").impl
    obj = recv_sym()
    memo = Sym(("memo",), {FRESH})

    def conf(cfg):
        cfg.record_decisions = True
        cfg.loop_unroll = 1
        cfg.user_may_raise = False
    it, outs = run_function(ctx.p, ctx.H, fi, [obj, memo], {}, frozen=None, do_not_copy=None,
                            attr_do_not_copy=None, configure=conf)
    rows = []
    for o in outs:
        dec = {}
        for k, v in o.state.decisions:
            dec[_dc_atom(k)] = v
        stores = [(e[2], e[5], tuple(e[6] or ())) for e in o.state.trace if e[0] == "W" and not str(e[2]).startswith("memo")]   # memo[id(self)] = new is bookkeeping
        copies = [e[1] for e in o.state.trace if e[0] == "CP"]
        entered = any(".items()" in repr(k) or "__dict__" in repr(k) and "[]" in repr(k) for k, v in o.state.decisions) or bool(stores) \
            or any(".items()" in str(e) for e in o.state.trace)
        rows.append({"kind": o.kind, "entered": entered, "ret": vrepr(o.value) if o.kind == "ok" else o.value.cls,
                     "ret_prov": sorted(o.value.prov) if isinstance(o.value, Sym) else [],
                     "dec": {k: v for k, v in dec.items() if k}, "stores": stores, "copies": copies,
                     "imm": sorted(immutable_reprs(o.state.facts)),
                     "ucalls": [e[1] for e in o.state.trace if e[0] == "U"]})
    return {"rows": rows, "functions": sorted(it.functions_entered)}


def _dc_atom(key):
    s = repr(key)
    if key[0] == "truthy" and key[1][-1] == ".frozen":
        return "frozen"
    if key[0] == "truthy" and key[1][-2:] == (".__spec_class__", ".do_not_copy"):
        return "class_do_not_copy"
    if key[0] == "truthy" and key[1][-1] == ".do_not_copy":
        return "attr_do_not_copy"
    if key[0] == "pred" and "ismethod" in key[1]:
        return "ismethod"
    if key[0] == "is" and "__self__" in s:
        return "bound_to_self"
    if key[0] == "in" or (key[0] == "truthy" and "attrs" in s):
        return "attr_spec_found"
    if key[0] == "truthy" and "__post_copy__" in s:
        return "has_post_copy"
    if key[0] == "hasattr" and "__post_copy__" in s:
        return "has_post_copy"
    if key[0] in ("isinstance", "immutable"):
        return None
    return s[:60]


# ---------------------------------------------------------------- C02.PT
def pt_worker(_):
    ctx = get_ctx()
    fi = ctx.p.find_function("protect_via_deepcopy")

    def conf(cfg):
        cfg.record_decisions = True
    it, outs = run_function(ctx.p, ctx.H, fi, [Sym(("obj",), {ARG})], {}, configure=conf)
    rows = []
    for o in outs:
        types_true = [k[2] for k, v in o.state.decisions if k[0] == "isinstance" and v]
        rows.append({"kind": o.kind, "ret": vrepr(o.value) if o.kind == "ok" else o.value.cls,
                     "ret_prov": sorted(o.value.prov) if isinstance(o.value, Sym) else [],
                     "types_true": types_true, "imm": sorted(immutable_reprs(o.state.facts)),
                     "copies": [e[1] for e in o.state.trace if e[0] == "CP"]})
    return {"rows": rows, "functions": sorted(it.functions_entered)}



def pt_rule(ctx, rep, rule="C02.PT"):
    # ---- C02.PT
    rep.rules[rule] = "protect_via_deepcopy: returns its argument only for immutable atom types; otherwise a deep copy"
    r = pmap(pt_worker, [0])[0]
    rep.functions |= set(r["functions"])
    rep.evaluations += len(r["rows"])
    bad = []
    ncopy = 0
    for row in r["rows"]:
        if row["kind"] != "ok":
            continue
        if row["ret"] == "obj":
            if "obj" not in row["imm"]:
                bad.append(f"passes through non-immutable type(s) {row['types_true'] or 'unconditionally'}")
        else:
            ncopy += 1
            if "FRESH" not in row["ret_prov"]:
                bad.append(f"returns {row['ret']} {row['ret_prov']}")
    if ncopy == 0:
        bad.append("no path deep-copies the argument")
    rep.oblige(rule, "protect_via_deepcopy", not bad, "; ".join(bad[:3]))
    rep.sample({"entry": "protect_via_deepcopy", "rows": r["rows"][:3]})
    for b in sorted(set(bad)):
        rep.violate(Violation(rule, f"{rule}|{b[:70]}", b, "", "protect_via_deepcopy", [], "protect_via_deepcopy"))


def dc_rule(ctx, rep, rule="C02.DC"):
    # ---- C02.DC
    rep.rules[rule] = "decision table of __deepcopy__ over {class do_not_copy, attr_spec found, attr do_not_copy, bound method of self}"
    r = pmap(dc_worker, [0])[0]
    rep.functions |= set(r["functions"])
    rep.evaluations += len(r["rows"])
    seen_copy = seen_ident = seen_skip = False
    bad = []
    for row in r["rows"]:
        d = row["dec"]
        if row["kind"] != "ok":
            continue
        if d.get("class_do_not_copy"):
            if row["ret"] != "self":
                bad.append("class-level do_not_copy must return the instance itself")
            continue
        if d.get("frozen") and row["ret"] == "self":
            bad.append("frozen instance: __deepcopy__ returns the instance itself (copy-on-write helpers then write the receiver)")
            continue
        if "FRESH" not in row["ret_prov"] or row["ret"] == "self":
            bad.append(f"returns {row['ret']} instead of the newly allocated instance")
        for tgt, val, vprov in row["stores"]:
            if "RECV" in vprov and val not in row["imm"]:
                if d.get("attr_do_not_copy"):
                    seen_ident = True
                else:
                    bad.append(f"stores receiver value {val} uncopied without do_not_copy (decisions {d})")
            elif "FRESH" in vprov:
                if d.get("attr_do_not_copy") and d.get("attr_spec_found", True):
                    bad.append("do_not_copy attribute is duplicated instead of carried by identity")
                seen_copy = True
        if d.get("ismethod") and d.get("bound_to_self") and not row["stores"]:
            seen_skip = True
        if not row["stores"] and (row.get("entered") or any(k in d for k in ("attr_do_not_copy", "ismethod", "attr_spec_found"))):
            bad.append(f"__dict__ entry dropped from the copy (decisions {d or 'of the skipped entry'})")
    rep.sample({"entry": "DeepCopyMethod.deepcopy", "rows": r["rows"][:4]})
    if not (seen_copy and seen_ident):
        raise AnalysisError(f"{rule}: decision table incomplete (copy row {seen_copy}, identity row {seen_ident})")
    rep.oblige(rule, "DeepCopyMethod.deepcopy", not bad, "; ".join(sorted(set(bad))[:3]))
    for b in sorted(set(bad)):
        rep.violate(Violation(rule, f"{rule}|{b[:70]}", b, "", "DeepCopyMethod.deepcopy", [], "deepcopy"))



def def_rule(ctx, rep, rule="C02.DEF"):
    # ---- C02.DEF: fresh defaults (reset_* / del / constructor rely on it); shared with C08.FR
    rep.rules[rule] = "default lookups hand out fresh copies (a reset/constructed instance shares nothing with the class-level default)"
    from .c08 import fr_worker
    for r in pmap(fr_worker, ["lookup_default_value", "default_value"]):
        rep.functions |= set(r["functions"])
        rep.evaluations += len(r["rows"])
        bad = []
        for row in r["rows"]:
            if row["kind"] != "ok" or (row["sentinel"] and row["ret"] == "MISSING") or "FRESH" in row["prov"] or row["ret"] in row["imm"]:
                continue
            bad.append(f"returns `{row['ret']}` ({'+'.join(row['prov']) or 'atom'}) uncopied")
        rep.oblige(rule, f"Attr.{r['which']}", not bad, "; ".join(sorted(set(bad))[:2]))
        for b in sorted(set(bad)):
            rep.violate(Violation(rule, f"{rule}|Attr.{r['which']}|{b[:60]}", f"Attr.{r['which']} {b}: instances obtained by reset_<attr>() / reset() / construction share the class-level object",
                                  "", f"Attr.{r['which']}"))



def _check_main(ctx, rep: Report):
    rep.rules["C02.S"] = ("per helper, _inplace=False: no write into a fresh object stores a receiver-reachable, "
                          "non-immutable value; the helper does not return a receiver-reachable part; "
                          "non-trivial = path with such a store")
    rep.envs.append({"_inplace": False, "frozen": False, "do_not_copy": False})
    for r in pmap(worker, provrun.helper_tasks(ctx)):
        provrun.absorb(rep, r)
        rep.oblige("C02.S", r["entry"], not r["viols"], f"{len(r['paths'])} paths")
        for v in r["viols"]:
            fn, stmt = ctx.p.stmt_at(v["site"]) if v["site"] else (r["task"][0], "return")
            what = (f"the result `{v['value']}` is only a shallow (or memo-seeded) copy of the receiver: every nested value is shared with it"
                    if v["how"] == "shallow-copy" else
                    f"receiver-reachable object `{v['value']}` is {v['how']}-stored into / returned with the copy: `{stmt}`")
            rep.violate(Violation("C02.S", v["key"], what,
                                  v["site"], fn, v["path"], v["entry"]))

    # ---- C02.RET
    rep.rules["C02.RET"] = "mutate_attr(inplace=False): a non-sentinel value is written onto, and returned as, a fresh copy (frozen and non-frozen); sentinels return the receiver untouched"
    variants = [("value", Sym(("value",), {ARG}, tags={"nonsentinel"}), False),
                ("value", Sym(("value",), {ARG}, tags={"nonsentinel"}), True)]
    for sname in ("MISSING", "EMPTY", "UNCHANGED"):
        variants.append((sname, Sentinel(sname, False), False))
    for r in pmap(ret_worker, variants):
        rep.functions |= set(r["functions"])
        rep.evaluations += len(r["rows"])
        name = f"mutate_attr[value={r['variant']},frozen={r['frozen']}]"
        bad = []
        nwrites = 0
        for row in r["rows"]:
            if r["variant"] == "value":
                if row["kind"] == "ok":
                    if "FRESH" not in row["ret_prov"] or row["ret"] == "self":
                        bad.append(f"returns {row['ret']} ({row['ret_prov']}) for a real value")
                for how, tgt, prov in row["writes"]:
                    nwrites += 1
                    if prov != ("FRESH",):
                        bad.append(f"{how} on {tgt} {prov}")
            else:
                if row["kind"] != "ok" or row["ret"] != "self" or row["writes"]:
                    bad.append(f"sentinel {r['variant']}: outcome {row['kind']} returns {row['ret']} writes {row['writes']}")
        if r["variant"] == "value" and nwrites == 0:
            raise AnalysisError("C02.RET: no raw write found in mutate_attr (anchor vanished)")
        rep.oblige("C02.RET", name, not bad, "; ".join(bad[:3]))
        rep.sample({"entry": name, "rows": r["rows"][:3]})
        if bad:
            rep.violate(Violation("C02.RET", f"C02.RET|mutate_attr|{r['variant']}|frozen={r['frozen']}|{bad[0][:60]}",
                                  f"mutate_attr(inplace=False, frozen={r['frozen']}): {bad[0]}", "", "mutate_attr", bad, name))

    dc_rule(ctx, rep)
    pt_rule(ctx, rep)


    def_rule(ctx, rep)


def check(ctx, rep):
    from . import metarules, shared
    _check_main(ctx, rep)
    from . import metarules, r5rules
    r5rules.build_attr_spec_rules(ctx, rep, "C02.META", ("dnc",))
    r5rules.invalidate_no_force(ctx, rep, "C02.INV")
    metarules.attr_spec_writers(ctx, rep, "C02.SPEC")
    metarules.deepcopy_memo(ctx, rep, "C02.DC")
    metarules.for_class_rule(ctx, rep, "C02.META", ("dnc",))
    metarules.declared_do_not_copy(ctx, rep, "C02.META")
