"""C14 — KeyedSet is a set of items identified by key (structural clauses; operation sequences
against a dict model are NOT decided).

C14.ADD  decision table of add(): validation first; ValueError iff enforce and key present and the
         stored item differs - with nothing written; otherwise exactly one write _dict[key] = item
C14.WHO  _dict is written only by __init__, add, discard
C14.DUAL sibling agreement: discard() removes exactly when __contains__() is true, over
         {argument is a present key, key(argument) present, enforce, stored == argument}; key lookup is
         tried before item lookup
C14.FWD  the inherited Set operators build results through _from_iterable, which the class overrides
         to forward the key function and enforce_item_equivalence
C14.ALG  algebra/comparison mixins reach the contents only through __contains__/__iter__/__len__/add/discard
"""
from __future__ import annotations

import ast

from ..model import AnalysisError
from ..report import Report, Violation
from ..values import ARG, CLS, FRESH, IMM, RECV, Const, Sym, vrepr
from . import dtable, keyed
from .base import get_ctx, pmap, walk_own

META = {"assumptions": ["dict primitives are atomic", "the key function is deterministic", "hashing errors (TypeError) are outside the tables"],
        "trusted": ["sa abstract interpreter", "stdlib ast", "CPython's _collections_abc.py (parsed as source)"]}


def _classify(k):
    r = repr(k)
    if k[0] == "truthy" and k[1] == ("self", ".enforce_item_equivalence"):
        return ("enforce", True)
    if k[0] == "in" and "._dict" in r:
        if "call/" in k[1] or "key" in k[1].split("call")[-1] and "call" in k[1]:
            return ("key_present", True)
        return ("arg_is_present_key", True)
    if k[0] == "eq":
        return ("equal", True)
    if k[0] == "truthy" and k[1][-1] == "._key":
        return ("has_keyfn", True)
    if k[0] == "uraise":
        return ("keyfn_raises", True)
    if k[0] == "caught":
        return ("keyfn_typeerror", True)
    if k[0] == "raises":
        return ("hash_typeerror", True)
    if k[0] == "hasattr":
        return ("parameterised" if "__args__" in r else "item_is_spec", True)
    if k[0] == "check":
        return ("type_ok_" + ("key" if "[1]" in k[2] or "key" in k[2] else "item"), True)
    if k[0] == "truthy":
        return ("t:" + str(k[1][-1]), True)
    if k[0] == "is":
        return ("is:" + r[-30:], True)
    return None


def _writes(o):
    return tuple((e[1], e[2].replace("self/", ""), e[4]) for e in o.state.trace if e[0] == "W" and "_dict" in e[2])


def table_worker(meth):
    arg = Sym(("value",), {ARG}, tags={"nonsentinel"})

    def conf(cfg):
        cfg.record_decisions = True
        cfg.implicit_raises = False
        cfg.stubs["KeyedBase._validate_item"] = _stub_validate
        cfg.stubs["KeyedBase.key"] = _stub_key
    it, outs, c = keyed.run_method("KeyedSet", meth, [arg], reducer=None, configure=conf, user_may_raise=False)
    rows = []
    for o in outs:
        atoms = {}
        bad = False
        for k, v in o.state.decisions:
            cl = _classify(k)
            if cl is None:
                raise AnalysisError(f"C14 {meth}: unclassified condition {k!r}")
            if cl[0] in atoms and atoms[cl[0]] != v:
                bad = True
            atoms[cl[0]] = v
        if bad:
            continue
        res = (o.value.value if isinstance(o.value, Const) else vrepr(o.value)) if o.kind == "ok" else ("raise", o.value.cls)
        order = [("V" if e[0] == "VALIDATE" else "W") for e in o.state.trace if e[0] in ("VALIDATE", "W")]
        rows.append((atoms, res, _writes(o), order))
    return rows, sorted(it.functions_entered)


def _stub_validate(interp, st, args, kwargs, frame, node):
    from ..common import Outcome
    from ..values import TupleV
    st.emit("VALIDATE", interp.site(frame, node))
    a = [x for x in args if not isinstance(x, tuple)]
    return [Outcome("ok", st, TupleV([a[1], Sym(("call", "key", "of-value"), {"USER"})]))]


def _stub_key(interp, st, args, kwargs, frame, node):
    from ..common import Outcome
    return [Outcome("ok", st, Sym(("call", "key", "of-value"), {"USER"}))]


def _check_main(ctx, rep: Report):
    ci = ctx.p.find_class("KeyedSet")
    mrel = ci.module.relpath
    rep.extra["exhaustive"] = True
    # ---- ADD
    rep.rules["C14.ADD"] = "exhaustive decision table of add() over {enforce, key present, stored == new}"
    rows, fns = table_worker("add")
    rep.functions |= set(fns)
    rep.evaluations += len(rows)
    bad = []
    for atoms, res, ws, order in rows:
        rep.nontrivial.add(("add", tuple(sorted(atoms.items())), repr(res), ws))
        if not order or order[0] != "V":
            bad.append("the item is not validated (type / key) before anything else")
        reject = atoms.get("enforce") and atoms.get("key_present") and atoms.get("equal") is False
        if reject:
            if res != ("raise", "ValueError") or ws:
                bad.append(f"enforce, key present, items differ: expected ValueError and no write, got {res} with writes {ws}")
        else:
            if isinstance(res, tuple) and res[0] == "raise":
                bad.append(f"raises {res[1]} although the item is admissible ({atoms})")
            elif [w[0] for w in ws] != ["setitem"]:
                bad.append(f"admissible item: expected exactly one store into the key index, got {ws}")
    if not any(a.get("enforce") and a.get("key_present") and a.get("equal") is False for a, *_ in rows):
        bad.append("no path rejects an unequal item under an existing key when enforce_item_equivalence is set")
    rep.oblige("C14.ADD", "KeyedSet.add", not bad, "; ".join(sorted(set(bad))[:2]) or f"{len(rows)} rows")
    rep.sample({"entry": "KeyedSet.add", "rows": [[a, repr(r), list(w)] for a, r, w, _ in rows[:4]]})
    for b in sorted(set(bad)):
        rep.violate(Violation("C14.ADD", f"C14.ADD|{b[:70]}", f"KeyedSet.add: {b}", "", "KeyedSet.add"))

    # ---- WHO
    rep.rules["C14.WHO"] = "writers of _dict"
    allowed = {"__init__", "add", "discard"}
    changed = True
    while changed:      # private helpers of the allowed primitives
        changed = False
        for name, defs in ci.methods.items():
            if name in allowed:
                for n in ast.walk(defs[0].node):
                    if isinstance(n, ast.Call) and isinstance(n.func, ast.Attribute) and ast.unparse(n.func.value) == "self" \
                            and n.func.attr.startswith("_") and not n.func.attr.startswith("__") and n.func.attr not in allowed:
                        allowed.add(n.func.attr)
                        changed = True
    for name, defs in ci.methods.items():
        for n in walk_own(defs[0].node):
            hit = None
            if isinstance(n, (ast.Assign, ast.Delete, ast.AugAssign)):
                tg = n.targets if not isinstance(n, ast.AugAssign) else [n.target]
                tg = [e_ for x_ in tg for e_ in (x_.elts if isinstance(x_, (ast.Tuple, ast.List)) else [x_])]
                for t in tg:
                    if ast.unparse(t).startswith("self._dict"):
                        hit = ast.unparse(t)
            if isinstance(n, ast.Call) and isinstance(n.func, ast.Attribute) and ast.unparse(n.func.value) == "self._dict" \
                    and n.func.attr in ("pop", "clear", "update", "setdefault", "popitem", "__setitem__", "__delitem__"):
                hit = ast.unparse(n.func)
            if hit:
                ok = name in allowed
                rep.oblige("C14.WHO", f"{name}:{hit}", ok)
                if not ok:
                    rep.violate(Violation("C14.WHO", f"C14.WHO|{name}", f"KeyedSet.{name} writes the key index directly (`{hit}`), bypassing validation / equivalence enforcement", f"{mrel}:{n.lineno}", f"KeyedSet.{name}"))

    # ---- DUAL
    rep.rules["C14.DUAL"] = "__contains__ vs discard over all assignments of {argument is a present key, key(argument) present, enforce, equal}"
    crow, f1 = table_worker("__contains__")
    drow, f2 = table_worker("discard")
    rep.functions |= set(f1) | set(f2)
    rep.evaluations += len(crow) + len(drow)
    dom = ["arg_is_present_key", "key_present", "enforce", "equal"]
    import itertools
    bad = []
    for vals in itertools.product([False, True], repeat=4):
        a = dict(zip(dom, vals))
        ch = [r for r in crow if all(a.get(k) == v for k, v in r[0].items() if k in a)]
        dh = [r for r in drow if all(a.get(k) == v for k, v in r[0].items() if k in a)]
        if not ch or not dh:
            bad.append(f"no path for {a}")
            continue
        member = ch[0][1] is True
        removed = any(w[0] in ("delitem", "method:pop") for w in dh[0][2])
        # oracle from the statement: membership/discard accept a key or an item; by item = by key, unless enforce (then equality too)
        exp = a["arg_is_present_key"] or (a["key_present"] and (not a["enforce"] or a["equal"]))
        if member != exp:
            bad.append(f"__contains__ is {member} but should be {exp} when {', '.join(k for k, v in a.items() if v) or 'nothing holds'}")
        if removed != exp:
            bad.append(f"discard removes={removed} but should be {exp} when {', '.join(k for k, v in a.items() if v) or 'nothing holds'}")
        if member != removed:
            bad.append(f"__contains__ ({member}) and discard (removes={removed}) disagree when {', '.join(k for k, v in a.items() if v) or 'nothing holds'}")
    rep.oblige("C14.DUAL", "__contains__ ~ discard", not bad, "; ".join(bad[:2]) or "16 assignments")
    rep.sample({"entry": "KeyedSet.__contains__", "rows": [[a, repr(r)] for a, r, *_ in crow[:4]]})
    for b in sorted(set(bad))[:4]:
        rep.violate(Violation("C14.DUAL", f"C14.DUAL|{b[:90]}", f"KeyedSet: {b}", "", "KeyedSet.__contains__/discard"))
    # key lookup first
    for name in ("__contains__", "discard", "__getitem__"):
        d = ci.methods.get(name)
        def events(fnode, depth=2):
            """'key' = touches the key index, 'item' = extracts a key from the argument; source order, private methods inlined"""
            aliases = {a_.targets[0].id for a_ in ast.walk(fnode) if isinstance(a_, ast.Assign) and len(a_.targets) == 1
                       and isinstance(a_.targets[0], ast.Name) and ast.unparse(a_.value) == "self._dict"}
            out = []
            nodes = sorted((n_ for n_ in ast.walk(fnode) if hasattr(n_, "lineno")), key=lambda n_: (n_.lineno, n_.col_offset))
            for n_ in nodes:
                if isinstance(n_, ast.Call) and ast.unparse(n_.func) == "self.key":
                    out.append("item")
                elif isinstance(n_, ast.Call) and isinstance(n_.func, ast.Attribute) and ast.unparse(n_.func.value) == "self" \
                        and n_.func.attr.startswith("_") and depth > 0:
                    for nm in (n_.func.attr, f"_{ci.name}{n_.func.attr}"):
                        dd = ci.methods.get(nm) or (ci.methods.get(nm[len(ci.name) + 1:]) if nm.startswith(f"_{ci.name}__") else None)
                        if dd:
                            out += events(dd[0].node, depth - 1)
                            break
                elif isinstance(n_, ast.Compare) and any(isinstance(o_, (ast.In, ast.NotIn)) for o_ in n_.ops) and \
                        (ast.unparse(n_.comparators[0]) == "self._dict" or (isinstance(n_.comparators[0], ast.Name) and n_.comparators[0].id in aliases)):
                    out.append("key")
                elif isinstance(n_, ast.Subscript) and (ast.unparse(n_.value) == "self._dict" or (isinstance(n_.value, ast.Name) and n_.value.id in aliases)):
                    out.append("key")
                elif isinstance(n_, ast.Call) and isinstance(n_.func, ast.Attribute) and n_.func.attr in ("pop", "get", "__contains__") and \
                        (ast.unparse(n_.func.value) == "self._dict" or (isinstance(n_.func.value, ast.Name) and n_.func.value.id in aliases)):
                    out.append("key")
            return out
        evs = events(d[0].node)
        ok = "key" in evs and ("item" not in evs or evs.index("key") < evs.index("item"))
        # presence in the key index is decided by `in` / KeyError, never by the truthiness (or None-ness) of the stored item
        par_ = {id(ch_): p_ for p_ in ast.walk(d[0].node) for ch_ in ast.iter_child_nodes(p_)}
        for g_ in ast.walk(d[0].node):
            if isinstance(g_, ast.Call) and isinstance(g_.func, ast.Attribute) and g_.func.attr == "get" and ast.unparse(g_.func.value).endswith("_dict") and len(g_.args) == 1:
                up = par_.get(id(g_))
                tested = isinstance(up, (ast.BoolOp, ast.If, ast.IfExp, ast.While)) or (isinstance(up, ast.UnaryOp) and isinstance(up.op, ast.Not)) \
                    or isinstance(up, ast.Assign)
                rep.oblige("C14.DUAL", f"{name}[presence by membership]", not tested)
                if tested:
                    rep.violate(Violation("C14.DUAL", f"C14.DUAL|truthy-item|{name}", f"KeyedSet.{name} decides presence from `{ast.unparse(g_)[:50]}` (truthiness / None-ness of the stored item): a stored falsy item reads as absent", f"{mrel}:{g_.lineno}", f"KeyedSet.{name}"))
        rep.oblige("C14.DUAL", f"{name}[key lookup first]", ok)
        if not ok:
            rep.violate(Violation("C14.DUAL", f"C14.DUAL|order|{name}", f"KeyedSet.{name} no longer tries the argument as a key before extracting a key from it", f"{mrel}:{d[0].node.lineno}", f"KeyedSet.{name}"))

    # ---- FWD
    rep.rules["C14.FWD"] = "_from_iterable overridden and forwarding constructor state"
    c, m = ctx.p.lookup_method(ci, "_from_iterable")
    bad = []
    if c is None or c.name != "KeyedSet":
        bad.append("KeyedSet inherits Set._from_iterable (cls(it)): results of |, &, -, ^ lose the key function and enforce_item_equivalence")
    else:
        src = ast.unparse(m[0].node)
        if "self._key" not in src and "self.key" not in src:
            bad.append("_from_iterable does not forward the key function")
        if "enforce_item_equivalence" not in src:
            bad.append("_from_iterable does not forward enforce_item_equivalence")
    rep.oblige("C14.FWD", "KeyedSet._from_iterable", not bad, "; ".join(bad))
    for b in bad:
        rep.violate(Violation("C14.FWD", f"C14.FWD|{b[:50]}", b, f"{mrel}:{m[0].node.lineno}" if isinstance(m, list) else "", "KeyedSet._from_iterable"))
    init = ci.methods["__init__"][0].node
    stored = {t.attr for n in ast.walk(init) if isinstance(n, ast.Assign) for t in n.targets if isinstance(t, ast.Attribute) and ast.unparse(t.value) == "self"}
    rep.extra["constructor_state"] = sorted(stored)

    # ---- ALG
    rep.rules["C14.ALG"] = "inherited algebra/comparison mixins only use the five primitives + _from_iterable"
    allowed_prims = {"__contains__", "__iter__", "__len__", "add", "discard", "_from_iterable", "__init__", "remove", "pop", "clear", "isdisjoint"}
    mixins = ["__le__", "__lt__", "__ge__", "__gt__", "__and__", "__or__", "__sub__", "__xor__", "isdisjoint", "__ior__", "__iand__", "__ixor__", "__isub__", "remove", "pop", "clear"]
    for mname in mixins:
        c, m = ctx.p.lookup_method(ci, mname)
        if not isinstance(m, list):
            raise AnalysisError(f"C14.ALG: mixin {mname} not found")
        uses = set()
        for n in ast.walk(m[0].node):
            if isinstance(n, ast.Attribute) and ast.unparse(n.value) == "self":
                uses.add(n.attr)
        src = ast.unparse(m[0].node)
        direct = {u for u in uses if u.startswith("_") and not u.startswith("__") and u != "_from_iterable"}
        ok = not direct
        rep.oblige("C14.ALG", f"{c.name}.{mname}", ok, f"uses {sorted(uses)}")
        if not ok:
            rep.violate(Violation("C14.ALG", f"C14.ALG|{mname}", f"{c.name}.{mname} reaches the storage directly ({sorted(direct)}) instead of the key-resolving primitives", "", f"{c.name}.{mname}"))


def check(ctx, rep):
    from . import keyedrules, metarules, shared
    _check_main(ctx, rep)
    keyedrules.keyedset_eq(ctx, rep, "C14.EQ")
    keyedrules.keyedset_init(ctx, rep, "C14.INIT")
    keyedrules.key_precedence(ctx, rep, "C14.KEYFN")
    shared.borrow(ctx, rep, "c13", {"C13.VAL": "C14.VAL"})      # KeyedBase._validate_item is shared by both containers
