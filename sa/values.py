"""Abstract values and heap objects of the effect interpreter (finite domain)."""
from __future__ import annotations

from typing import Dict, FrozenSet, List, Optional, Tuple

# ---- provenance atoms -------------------------------------------------------
RECV = "RECV"      # the receiver or anything read out of it
ARG = "ARG"        # a caller-supplied object or anything read out of it
FRESH = "FRESH"    # allocated / constructed / deep-copied inside the operation
USER = "USER"      # result of a user callback
CLS = "CLS"        # class-level state (defaults, metadata, Attr objects)
GLOBAL = "GLOBAL"  # module / interpreter level tables
IMM = "IMM"        # immutable atoms (sentinels, literals, strings, numbers)

MAX_TOK = 7


class V:
    __slots__ = ()


class Const(V):
    __slots__ = ("value",)

    def __init__(self, value):
        self.value = value

    def key(self):
        return ("C", type(self.value).__name__, repr(self.value))

    def __repr__(self):
        return f"Const({self.value!r})"


class Sentinel(V):
    """A module-level singleton (MISSING / EMPTY / UNCHANGED / object())."""
    __slots__ = ("name", "truthy")

    def __init__(self, name, truthy):
        self.name = name
        self.truthy = truthy

    def key(self):
        return ("S", self.name)

    def __repr__(self):
        return f"<{self.name}>"


class Sym(V):
    """An opaque object identified by a structural token."""
    __slots__ = ("tok", "prov", "inner", "tags")

    def __init__(self, tok, prov, inner=None, tags=frozenset()):
        if not isinstance(tok, tuple):
            tok = (tok,)
        if len(tok) > MAX_TOK:
            tok = tok[:2] + ("...",) + tok[-(MAX_TOK - 3):]
        self.tok = tok
        self.prov = frozenset(prov) if not isinstance(prov, frozenset) else prov
        self.inner = None if inner is None else frozenset(inner)
        self.tags = frozenset(tags)

    def key(self):
        return ("Y", self.tok, tuple(sorted(self.prov)),
                None if self.inner is None else tuple(sorted(self.inner)),
                tuple(sorted(map(str, self.tags))))

    def content_prov(self):
        return self.inner if self.inner is not None else self.prov

    def with_tags(self, *tags):
        return Sym(self.tok, self.prov, self.inner, self.tags | set(tags))

    def __repr__(self):
        t = "/".join(map(str, self.tok))
        return f"Sym({t}:{','.join(sorted(self.prov))})"


class Ref(V):
    __slots__ = ("addr",)

    def __init__(self, addr):
        self.addr = addr

    def key(self):
        return ("R", self.addr)

    def __repr__(self):
        return f"Ref({self.addr})"


class FuncV(V):
    __slots__ = ("fi", "env")

    def __init__(self, fi, env=None):
        self.fi = fi      # model.FunctionInfo
        self.env = env    # addr of enclosing Env (closure) or None

    def key(self):
        return ("F", self.fi.qualname, self.env)

    def __repr__(self):
        return f"Func({self.fi.qualname})"


class BoundV(V):
    __slots__ = ("self_v", "func")

    def __init__(self, self_v, func):
        self.self_v = self_v
        self.func = func   # FuncV or ExtV

    def key(self):
        return ("B", vkey(self.self_v), vkey(self.func))

    def __repr__(self):
        return f"Bound({self.self_v!r}.{self.func!r})"


class ClassV(V):
    __slots__ = ("ci",)

    def __init__(self, ci):
        self.ci = ci

    def key(self):
        return ("K", self.ci.qualname)

    def __repr__(self):
        return f"Class({self.ci.qualname})"


class ModuleV(V):
    __slots__ = ("mi",)

    def __init__(self, mi):
        self.mi = mi

    def key(self):
        return ("M", self.mi.name)

    def __repr__(self):
        return f"Module({self.mi.name})"


class ExtV(V):
    """An external (non-analysed) callable / class / module, by dotted name."""
    __slots__ = ("name",)

    def __init__(self, name):
        self.name = name

    def key(self):
        return ("E", self.name)

    def __repr__(self):
        return f"Ext({self.name})"


class TupleV(V):
    __slots__ = ("items",)

    def __init__(self, items):
        self.items = tuple(items)

    def key(self):
        return ("T",) + tuple(vkey(i) for i in self.items)

    def __repr__(self):
        return f"Tuple{self.items!r}"


class ExcV(V):
    """An exception instance of class `cls` (name); cls '?' = unknown user exception."""
    __slots__ = ("cls", "origin")

    def __init__(self, cls, origin=""):
        self.cls = cls
        self.origin = origin

    def key(self):
        return ("X", self.cls, self.origin)

    def __repr__(self):
        return f"Exc({self.cls}@{self.origin})"


def vkey(v):
    if v is None:
        return None
    return v.key()


# ---- heap objects -----------------------------------------------------------
class HObj:
    __slots__ = ()


class Inst(HObj):
    __slots__ = ("cls", "fields", "prov")

    def __init__(self, cls, fields=None, prov=FRESH):
        self.cls = cls      # ClassInfo
        self.fields = dict(fields or {})
        self.prov = prov

    def clone(self):
        return Inst(self.cls, self.fields, self.prov)

    def key(self):
        return ("I", self.cls.qualname, self.prov,
                tuple(sorted((k, vkey(v)) for k, v in self.fields.items())))


class DictO(HObj):
    """Dict with constant keys; `rest` is the value for unknown further keys
    (None = dict is exactly `items`)."""
    __slots__ = ("items", "rest", "prov")

    def __init__(self, items=None, rest=None, prov=FRESH):
        self.items = dict(items or {})
        self.rest = rest
        self.prov = prov

    def clone(self):
        return DictO(self.items, self.rest, self.prov)

    def key(self):
        return ("D", self.prov, tuple(sorted((repr(k), vkey(v)) for k, v in self.items.items())),
                vkey(self.rest))


class ListO(HObj):
    __slots__ = ("items", "rest", "prov", "kind")

    def __init__(self, items=None, rest=None, prov=FRESH, kind="list"):
        self.items = list(items or [])
        self.rest = rest
        self.prov = prov
        self.kind = kind  # list | set

    def clone(self):
        return ListO(self.items, self.rest, self.prov, self.kind)

    def key(self):
        return ("L", self.kind, self.prov, tuple(vkey(v) for v in self.items), vkey(self.rest))


class PartialO(HObj):
    __slots__ = ("func", "args", "kwargs")

    def __init__(self, func, args, kwargs):
        self.func = func
        self.args = tuple(args)
        self.kwargs = dict(kwargs)

    def clone(self):
        return self  # immutable

    def key(self):
        return ("P", vkey(self.func), tuple(vkey(a) for a in self.args),
                tuple(sorted((k, vkey(v)) for k, v in self.kwargs.items())))


class Env(HObj):
    __slots__ = ("vars", "parent", "fi")

    def __init__(self, vars=None, parent=None, fi=None):
        self.vars = dict(vars or {})
        self.parent = parent  # addr of enclosing function Env or None
        self.fi = fi

    def clone(self):
        return Env(self.vars, self.parent, self.fi)

    def key(self):
        return ("N", self.fi.qualname if self.fi else None, self.parent,
                tuple(sorted((k, vkey(v)) for k, v in self.vars.items())))


class Event(tuple):
    """(kind, ...fields..., site).  Kinds:
    W   write:   ('W', how, target_tok, target_prov, attr, value_repr, value_prov, value_tags, site)
    U   user callback call: ('U', callee_tok, label, site)
    R   explicit raise: ('R', exc_class, site)
    UR  user callback raised: ('UR', callee_tok, site)
    MR  primitive may raise: ('MR', what, site)
    CHK check_type evaluated: ('CHK', value_repr, type_repr, result, site)
    INV invalidate: ('INV', obj_repr, attr_repr, site)
    CP  deep copy: ('CP', src_repr, site)
    L+ / L- lock: ('L+', lock_repr, site)
    WARN: ('WARN', site)
    CALL: in-repo call marker ('CALL', qualname, site) (only for functions on the watch list)
    """
    __slots__ = ()

    @property
    def kind(self):
        return self[0]

    @property
    def site(self):
        return self[-1]


def vrepr(v) -> str:
    """Stable short rendering of a value for events/evidence."""
    if isinstance(v, Sym):
        return "/".join(map(str, v.tok))
    if isinstance(v, Const):
        return repr(v.value)
    if isinstance(v, Sentinel):
        return v.name
    if isinstance(v, Ref):
        return f"@{v.addr[0]}"
    if isinstance(v, FuncV):
        return v.fi.qualname.split(":")[-1]
    if isinstance(v, BoundV):
        return f"{vrepr(v.self_v)}.{vrepr(v.func)}"
    if isinstance(v, ClassV):
        return v.ci.name
    if isinstance(v, ExtV):
        return v.name
    if isinstance(v, TupleV):
        return "(" + ",".join(vrepr(i) for i in v.items) + ")"
    if isinstance(v, ModuleV):
        return v.mi.name
    if isinstance(v, ExcV):
        return f"exc:{v.cls}"
    return repr(v)
