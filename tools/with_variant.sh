#!/bin/bash
# usage: with_variant.sh <variant dir> <command...>   ({} in the command is replaced by the scratch repo dir)
p="$(realpath "$1")/patch.diff"
d=$(mktemp -d /dev/shm/sa_wv_XXXX); cp -r /repo/spec_classes $d/; (cd $d && patch -p1 -s -F0 < "$p") || { echo PATCH-FAILED; rm -rf $d; exit 3; }
shift; cmd="${@//\{\}/$d}"; eval "$cmd"; rc=$?; rm -rf $d; exit $rc
