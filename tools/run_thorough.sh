#!/bin/bash
cd /verif
for p in C19 C20 C14 C15 C16 C13 C18 C10 C12 C09 C17 C05 C11 C03 C06 C08 C07 C02 C01 C04; do
  s=$(date +%s)
  /venv/bin/python check.py $p --tier thorough > ${OUT:-/tmp}/thorough_$p.log 2>&1
  rc=$?
  echo "$p rc=$rc $(( $(date +%s) - s ))s $(grep -E '^SELF-TEST property|ANALYSIS' ${OUT:-/tmp}/thorough_$p.log | tail -1 | cut -c1-200)"
done
