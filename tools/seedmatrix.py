#!/venv/bin/python
"""Own-property quick check of every catalogued breaking variant, on scratch copies (never /repo itself).
usage: seedmatrix.py [-j N] [name-filter]"""
import json, os, shutil, subprocess, sys, tempfile
from concurrent.futures import ThreadPoolExecutor

j = 8
args = sys.argv[1:]
if args and args[0] == "-j":
    j = int(args[1]); args = args[2:]
flt = args[0] if args else ""
seeds = sorted(d for d in os.listdir("/verif/seeded") if os.path.isdir(f"/verif/seeded/{d}") and flt in d)


def run_one(sid):
    pid = sid.split("-")[0]
    tmp = tempfile.mkdtemp(prefix="sa_seed_", dir="/dev/shm")
    try:
        shutil.copytree("/repo/spec_classes", f"{tmp}/spec_classes", ignore=shutil.ignore_patterns("__pycache__"))
        r = subprocess.run(["patch", "-p1", "-s", "-F0", "-i", f"/verif/seeded/{sid}/patch.diff"], cwd=tmp, capture_output=True, text=True)
        if r.returncode:
            return sid, "PATCH-FAILED", ""
        r = subprocess.run(f"/venv/bin/python /verif/check.py {pid} --repo {tmp}", shell=True, capture_output=True, text=True,
                           env={**os.environ, "SA_NO_EVIDENCE": "1", "TMPDIR": tmp})
        line = next((l.strip() for l in r.stdout.splitlines() if l.startswith("  C") or l.startswith("ANALYSIS")), "")
        return sid, {0: "pass", 1: "VIOLATION"}.get(r.returncode, "ANALYSIS-ERROR"), line[:200]
    finally:
        shutil.rmtree(tmp, ignore_errors=True)


with ThreadPoolExecutor(j) as ex:
    for sid, verdict, line in ex.map(run_one, seeds):
        print(f"{sid} | {verdict} {line}", flush=True)
