#!/venv/bin/python
"""Confirm each sub-agent mutant in a scratch worktree (applies, suite passes, demo fails with /
passes without) and store it under /verif/seeded/<id>/."""
import json, os, shutil, subprocess, sys

SRC = sys.argv[1] if len(sys.argv) > 1 else "/tmp/wt_out"
TAG = sys.argv[2] if len(sys.argv) > 2 else ""
WT = "/tmp/wt_verify"
PY = "/venv/bin/python"


def sh(cmd, cwd=None, timeout=900):
    r = subprocess.run(cmd, shell=True, cwd=cwd, capture_output=True, text=True, timeout=timeout)
    return r.returncode, (r.stdout + r.stderr)


def main():
    if os.path.exists(WT):
        sh(f"git -C /repo worktree remove --force {WT}")
    rc, out = sh(f"git -C /repo worktree add -q --detach {WT} HEAD")
    assert rc == 0, out
    shutil.copy("/repo/spec_classes/_version.py", f"{WT}/spec_classes/_version.py")
    results = []
    for prop in sorted(os.listdir(SRC)):
        for m in sorted(os.listdir(os.path.join(SRC, prop))):
            d = os.path.join(SRC, prop, m)
            patch = os.path.join(d, "patch.diff")
            demo = os.path.join(d, "demo.py")
            if not (os.path.exists(patch) and os.path.exists(demo)):
                continue
            sid = f"{prop}-{TAG}{m}"
            sh("git checkout -q -- . && git clean -fdq -e spec_classes/_version.py", cwd=WT)
            rc_clean, out_clean = sh(f"{PY} {demo}", cwd=WT, timeout=300)
            rc_apply, out = sh(f"git apply {patch}", cwd=WT)
            if rc_apply != 0:
                results.append((sid, "patch does not apply", out[-200:]))
                continue
            rc_t, out_t = sh(f"{PY} -m pytest -q -p no:cacheprovider -x", cwd=WT)
            passed = "152 passed" in out_t
            rc_mut, out_mut = sh(f"{PY} {demo}", cwd=WT, timeout=300)
            sh("git checkout -q -- . && git clean -fdq -e spec_classes/_version.py", cwd=WT)
            ok = rc_clean == 0 and passed and rc_mut != 0
            results.append((sid, "CONFIRMED" if ok else "REJECTED",
                            f"clean_demo_rc={rc_clean} tests_pass={passed} mutant_demo_rc={rc_mut}"))
            if ok:
                dst = f"/verif/seeded/{sid}"
                os.makedirs(dst, exist_ok=True)
                shutil.copy(patch, f"{dst}/patch.diff")
                shutil.copy(demo, f"{dst}/demo.py")
                meta = {}
                try:
                    meta = json.load(open(os.path.join(d, "meta.json")))
                except Exception:
                    pass
                meta["verified"] = {
                    "how": "scratch worktree of /repo HEAD: demo on clean tree exits 0; `git apply patch.diff`; "
                           "full suite 152 passed; demo exits non-zero; reverted",
                    "clean_demo_rc": rc_clean, "tests": "152 passed", "mutant_demo_rc": rc_mut,
                    "mutant_demo_tail": out_mut.strip().splitlines()[-1][:300] if out_mut.strip() else "",
                }
                json.dump(meta, open(f"{dst}/meta.json", "w"), indent=1)
    sh(f"git -C /repo worktree remove --force {WT}")
    for r in results:
        print(*r)


if __name__ == "__main__":
    main()
