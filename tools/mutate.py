#!/venv/bin/python
"""Ad-hoc variant test: copy /repo/spec_classes to a scratch dir, replace text, run checks there.
usage: mutate.py PROPS file old new [nth]   (PROPS comma separated)"""
import os, shutil, subprocess, sys, tempfile
props, rel, old, new = sys.argv[1:5]
nth = int(sys.argv[5]) if len(sys.argv) > 5 else 1
d = tempfile.mkdtemp(prefix="sa_mut_", dir="/dev/shm")
try:
    shutil.copytree("/repo/spec_classes", f"{d}/spec_classes", ignore=shutil.ignore_patterns("__pycache__"))
    p = f"{d}/{rel}"
    s = open(p).read()
    idx = -1
    for _ in range(nth):
        idx = s.find(old, idx + 1)
        if idx < 0:
            sys.exit(f"pattern not found: {old!r}")
    s = s[:idx] + new + s[idx + len(old):]
    open(p, "w").write(s)
    compile(s, p, "exec")
    for pid in props.split(","):
        r = subprocess.run(f"SA_REPO={d} /venv/bin/python /verif/check.py {pid} --repo {d}", shell=True, capture_output=True, text=True,
                           env={**os.environ, "SA_NO_EVIDENCE": "1", "TMPDIR": d})
        lines = [l for l in r.stdout.splitlines() if l.startswith("  C") or l.startswith("ANALYSIS")]
        print(pid, {0: "pass", 1: "VIOLATION", 2: "ANALYSIS-ERROR"}.get(r.returncode), (lines[0][:220] if lines else ""))
finally:
    shutil.rmtree(d, ignore_errors=True)
