#!/venv/bin/python
"""Run checks against patches applied to scratch copies of /repo (never /repo itself).
usage: varianttest.py DIR... [--props C01,C02] [--expect pass|violation] [-j N]
Each DIR contains patch.diff (git diff against /repo HEAD)."""
import argparse, json, os, shutil, subprocess, sys, tempfile
from concurrent.futures import ThreadPoolExecutor

ap = argparse.ArgumentParser()
ap.add_argument("dirs", nargs="+")
ap.add_argument("--props", default=None)
ap.add_argument("-j", type=int, default=8)
a = ap.parse_args()
man = json.load(open("/verif/MANIFEST.json"))
props = a.props.split(",") if a.props else [c["property_id"] for c in man["checks"]]


def run_one(d):
    patch = os.path.abspath(os.path.join(d, "patch.diff"))
    tmp = tempfile.mkdtemp(prefix="sa_var_", dir="/dev/shm")
    try:
        shutil.copytree("/repo/spec_classes", f"{tmp}/spec_classes", ignore=shutil.ignore_patterns("__pycache__"))
        r = subprocess.run(f"patch -p1 -s < {patch}", shell=True, cwd=tmp, capture_output=True, text=True)
        if r.returncode:
            return d, "PATCH-FAILED " + (r.stdout + r.stderr)[:120], []
        res = []
        for p in props:
            r = subprocess.run(f"/venv/bin/python /verif/check.py {p} --repo {tmp}", shell=True, capture_output=True, text=True,
                               env={**os.environ, "SA_NO_EVIDENCE": "1", "TMPDIR": tmp, "SA_SERIAL": "1"})
            if r.returncode != 0:
                lines = [l.strip() for l in r.stdout.splitlines() if l.startswith("  C") or l.startswith("ANALYSIS")]
                res.append((p, r.returncode, lines[0][:260] if lines else r.stdout[-200:]))
        return d, "ok", res
    finally:
        shutil.rmtree(tmp, ignore_errors=True)


with ThreadPoolExecutor(a.j) as ex:
    for d, status, res in ex.map(run_one, a.dirs):
        tag = os.path.relpath(d, "/tmp") if d.startswith("/tmp") else os.path.relpath(d, "/verif")
        if status != "ok":
            print(tag, status, flush=True)
        elif not res:
            print(tag, "all-pass", flush=True)
        else:
            for p, rc, line in res:
                print(tag, p, {1: "VIOLATION", 2: "ANALYSIS-ERROR"}.get(rc, rc), line, flush=True)
