#!/venv/bin/python
"""Run checks against seeded mutants: apply patch to /repo, run, revert.
usage: seedtest.py [--tier quick] [--props C01,C02 | --own] [seed ids...]"""
import argparse, json, os, subprocess, sys

ap = argparse.ArgumentParser()
ap.add_argument("seeds", nargs="*")
ap.add_argument("--tier", default="quick")
ap.add_argument("--props", default=None, help="comma list; default: the seed's own property")
ap.add_argument("--all-props", action="store_true")
a = ap.parse_args()
seeds = a.seeds or sorted(os.listdir("/verif/seeded"))
man = json.load(open("/verif/MANIFEST.json"))
claimed = [c["property_id"] for c in man["checks"]]
status = subprocess.run("git -C /repo status --porcelain --untracked-files=no", shell=True, capture_output=True, text=True).stdout
assert not status.strip(), "/repo has local changes"
for sid in seeds:
    d = f"/verif/seeded/{sid}"
    meta = json.load(open(f"{d}/meta.json"))
    props = a.props.split(",") if a.props else ([p for p in claimed] if a.all_props else [meta.get("property") or sid.split("-")[0]])
    r = subprocess.run(f"git -C /repo apply {d}/patch.diff", shell=True, capture_output=True, text=True)
    if r.returncode:
        print(sid, "PATCH-FAILED", r.stderr[:100]); continue
    try:
        hits = []
        for p in props:
            if not os.path.exists(f"/verif/sa/rules/{p.lower()}.py"):
                hits.append(f"{p}:n/a"); continue
            r = subprocess.run(f"/venv/bin/python /verif/check.py {p} --tier {a.tier}", shell=True, capture_output=True, text=True)
            v = [l for l in r.stdout.splitlines() if l.startswith("  C")]
            tag = {0: "pass", 1: "VIOLATION", 2: "ANALYSIS-ERROR"}.get(r.returncode, str(r.returncode))
            hits.append(f"{p}:{tag}" + (f" [{v[0].strip()[:150]}]" if v else "") + (" " + r.stdout.strip().splitlines()[-1][:200] if r.returncode == 2 else ""))
        print(sid, "|", " ; ".join(hits), flush=True)
    finally:
        subprocess.run("git -C /repo checkout -- .", shell=True)
