#!/venv/bin/python
"""Run only the round-5 structural rules (sa/rules/r5rules.py) on every catalogued benign variant (scratch copies):
each must produce no violation and no analysis error.  Fast regression for those AST-level rules."""
import os, shutil, subprocess, sys, tempfile
VROOT = os.environ.get("VROOT", "/verif")
from concurrent.futures import ProcessPoolExecutor
sys.path.insert(0, VROOT)

CHILD = r'''
import sys, inspect, os
VROOT = os.environ.get("VROOT", "/verif")
sys.path.insert(0, VROOT)
sys.setrecursionlimit(20000)
from sa.rules import base, r5rules
from sa.report import Report
from sa.model import AnalysisError
ctx = base.Ctx(sys.argv[1], "quick"); base.set_ctx(ctx)
out = []
for name, fn in sorted(vars(r5rules).items()):
    if name.startswith("_") or not inspect.isfunction(fn) or fn.__module__ != r5rules.__name__:
        continue
    if list(inspect.signature(fn).parameters)[:3] != ["ctx", "rep", "rule"]:
        continue
    rep = Report("CXX", "quick")
    try:
        fn(ctx, rep, "R5." + name)
        for v in rep.violations:
            out.append(f"VIOLATION {name}: {v.what[:160]}")
    except AnalysisError as e:
        out.append(f"ANALYSIS-ERROR {name}: {e}")
    except Exception as e:
        out.append(f"CRASH {name}: {type(e).__name__}: {e}")
print("\n".join(out) if out else "ok")
'''


def one(d):
    tmp = tempfile.mkdtemp(prefix="sa_r5_", dir="/dev/shm")
    try:
        shutil.copytree("/repo/spec_classes", f"{tmp}/spec_classes", ignore=shutil.ignore_patterns("__pycache__"))
        if d:
            r = subprocess.run(["patch", "-p1", "-s", "-F0", "-i", os.path.abspath(f"{d}/patch.diff")], cwd=tmp, capture_output=True, text=True)
            if r.returncode:
                return d, "PATCH-FAILED"
        r = subprocess.run(["/venv/bin/python", "-c", CHILD, tmp], capture_output=True, text=True, cwd=VROOT)
        return d, (r.stdout.strip() or r.stderr.strip()[-300:])
    finally:
        shutil.rmtree(tmp, ignore_errors=True)


if __name__ == "__main__":
    dirs = sys.argv[1:] or [""] + sorted(f"/verif/benign/{x}" for x in os.listdir("/verif/benign"))
    bad = 0
    with ProcessPoolExecutor(16) as ex:
        for d, res in ex.map(one, dirs):
            if res != "ok":
                bad += 1
                print(d or "<clean>", "|", res.replace("\n", "\n    "))
    print(f"{len(dirs)} variants, {bad} with reports")
