#!/venv/bin/python
"""Regenerate /verif/MANIFEST.json from the table below (only properties whose rule module exists are claimed)."""
import json
import os

V = "/verif"
PY = "/venv/bin/python"

COMMON_NOTE = ("Obligations the statement rests on but that are the subject of another property (e.g. copy-on-write writes nothing pre-existing, "
               "the pass-through set of protect_via_deepcopy, the __deepcopy__ table) are re-stated and re-decided under this property's own rule ids. "
               "In addition each property carries structural necessary-condition rules (rules/metarules.py, rules/shared.py, rules/r5rules.py: who-may-write / who-may-call tables, flags forwarded verbatim, own-namespace triggers, check-before-store order, per-option guards) read from the AST with local aliases substituted; their ids are listed in the evidence. "
               "Thorough tier = quick + all collection families + checker self-test (catalogued breaking variants of this property must be "
               "reported, catalogued behaviour-preserving variants must keep the verdict; each on a scratch copy of the current tree). Static: parses /repo/spec_classes (and the stdlib source of the inherited ABC mixins) on every run; never imports or runs "
               "the package; no solver. Trusted base: the abstract interpreter in /verif/sa (finite provenance domain, forked-and-merged "
               "paths, loops unrolled <=2), its models of builtins, stdlib ast. User callbacks are opaque (may raise / alias, do not mutate "
               "library state). Value-level outcomes are not decided.")

CLAIMS = {
    "C01": ("Ownership discipline behind copy-on-write: on every abstract path of all 19 helper implementations (3 call shapes each, "
            "scalar helpers also over list/dict/set-typed attributes) with _inplace=False, every write event (attribute set/delete, raw "
            "set/delete, container mutation, subscript store/delete) targets only objects allocated or deep-copied inside the call; "
            "_if=False is a pure `return self`. Because nothing pre-existing is ever written, no exception can leave the receiver or an "
            "argument changed. Decides that structural clause, not equality of object graphs.",
            "path- and flag-sensitive provenance (ownership) analysis by abstract interpretation over the AST"),
    "C02": ("No receiver-reachable mutable object is stored into, or returned as, the result of a copy-on-write helper (C02.S); the funnel "
            "mutate_attr returns a fresh object whenever it writes, for frozen and non-frozen classes (C02.RET); exhaustive decision table "
            "of __deepcopy__ (every __dict__ entry deep-copied, do_not_copy by identity, only self-bound methods skipped) (C02.DC); "
            "protect_via_deepcopy passes through immutable atom types only (C02.PT).",
            "provenance analysis + decision-table extraction by abstract interpretation"),
    "C03": ("Check-dominates-store on every route: mutate_attr raw-writes a managed attribute only on paths where check_type succeeded, for "
            "all (inplace, force); type_check=False only with collection-mutator chains (who-may-skip, 12+ sites); every element/key store "
            "of the three inserters is guarded by its check; prepare() keeps an incoming collection only after the whole-collection check; "
            "raw writes / __dict__ stores only at enumerated sites.",
            "guarded-event analysis (check-before-store) by abstract interpretation + who-may-call AST rules"),
    "C04": ("Failure atomicity as an ordering property of every in-place path (19 helpers with _inplace=True, __setattr__/__delattr__ "
            "closures; loops unrolled twice): after the first write to a pre-existing object there is no raise, no primitive that may raise "
            "and no user callback. Non-in-place routes write nothing pre-existing (C01). Plus the order of _mutate_collection and the "
            "new-collection rule of prepare().",
            "path-sensitive effect-order analysis (write-then-raise) by abstract interpretation"),
    "C07": ("Frozen classes: no in-place route writes receiver-reachable state on any path (guard-first), copy-on-write routes write only a "
            "distinct fresh copy with the in-repo __deepcopy__ interpreted, the initialising flag / force are produced only by the "
            "constructor and bracket its writes; FrozenInstanceError raised by copy-on-write helpers on their own copy is reported; "
            "FrozenInstanceError is not an instance of any exception the library swallows around guarded operations; frozen is "
            "inherited (MISSING-guarded options default to MISSING); results of opaque callbacks may alias their arguments.",
            "flag-sensitive provenance analysis under the frozen assumption environment + who-may-produce AST rules"),
    "C08": ("Default lookups return fresh copies / factory results / MISSING on every path and always walk the instance's MRO; the "
            "constructor copies caller-supplied values in both roles (own class, parent) unless do_not_copy; __delattr__ re-installs the "
            "default from lookup_default_value(type(self)); raw Attr.default/default_factory reads and force=True only at whitelisted sites.",
            "provenance analysis by abstract interpretation + who-may-read / who-may-force AST rules"),
    "C11": ("Invalidate-after-write on every mutation route: each raw write/delete is followed by invalidate_attrs(same object, same "
            "attribute) on every normal path and never before; every helper path that changed the instance or the attribute's container "
            "ends with that invalidation (in place and on the copy); skip_invalidation only from the constructor; structure of "
            "invalidate_attrs (union with '*', delattr dispatch, per-dependant handler, propagation through value-less dependants) and "
            "both sources of the invalidation map.",
            "must-follow (typestate) analysis over abstract event traces + structural AST rules"),
    "C05": ("Structural clauses only (the value-level equivalence with a reference model is not decidable statically and is not claimed): "
            "_if=False is a pure `return self`; sentinel values are no-ops in mutate_attr / mutate_value; the _inplace flag reaches the "
            "behaviour (receiver returned and raw-written iff _inplace, fresh object otherwise) for all 19 helpers and 3 call shapes; every "
            "declared helper parameter is live; obj.a = v and with_a(v, _inplace=True) share one prepare->mutate_attr skeleton; "
            "update_/transform_ reach the raw write only through with_attr, reset_/reset only through the __delattr__ closure.",
            "flag-forwarding / liveness / trace-skeleton comparison by abstract interpretation"),
    "C06": ("Structural clauses only (container contents/order equality is not claimed): no truthiness test on an element, key or index "
            "anywhere on the element-helper paths, no truthiness test of the container in extractors/inserters; exhaustive decision tables "
            "of the three inserters (append / insert(index, item) / [index]= / discard+add with the extractor's index) and of the by_index "
            "tri-state; _mutate_collection always performs the insertion after the extraction and re-raises unchanged; extractors raise "
            "IndexError/ValueError/KeyError for missing targets; prepare_item promotion table.",
            "taint (truthiness-of-element) analysis + decision-table extraction by abstract interpretation"),
    "C09": ("Structural clauses only (resolved constructor values per hierarchy are not claimed): __post_init__ at one call site, own "
            "class only, after all attribute writes / parent constructors / overflow store and before the initialising flag is removed; "
            "guards of every attribute write in the local loop (init-enabled, owned here, not the overflow attribute); parent constructors "
            "over the whole MRO with forwarded keywords popped; defaults looked up relative to the instance's class and tested by identity, "
            "never truthiness; exhaustive truth table of the overflow filter (comprehension or loop form); builder chain of the generated "
            "signature; __post_init__ hook and nearest-ancestor default resolution; parent constructors only for classes defining their own "
            "__init__; preparers looked up with inheritance.",
            "event-order and guard analysis by abstract interpretation + finite truth tables over condition ASTs"),
    "C10": ("Structural clauses only (reflexivity/symmetry/transitivity over values and repr text are not claimed): forall-loop polarity "
            "of __eq__ (only `return False` inside the loop, every True path carries an equality verdict for each visited compare-enabled "
            "attribute), class-compatibility test returns False, three-argument getattr with MISSING in __eq__ and repr, cycle test first "
            "in object_repr, attribute list from attrs.items() filtered by Attr.repr, __deepcopy__ drops no __dict__ entry and registers the "
            "copy in the memo before copying attributes; KeyedList/KeyedSet equality decided from the list / the key->item dict only.",
            "loop-polarity rule + per-path verdict analysis by abstract interpretation"),
    "C12": ("The descriptor protocol is a finite state machine over boolean options and slot presence: each of "
            "spec_property.__get__/__set__/__delete__ and classproperty.__get__/__set__/__delete__ is interpreted once per feasible truth "
            "assignment of its conditions and the extracted table (conditions -> returned value, slot store/delete, callbacks invoked, "
            "prepare/type-check applied) is compared exhaustively with an oracle written from the statement (up to 2^14 assignments); "
            "single-step tables compose because the only state is the slot. getter()/setter()/deleter() forward the protocol options.",
            "exhaustive decision-table extraction by abstract interpretation vs. protocol oracle"),
    "C18": ("Alias.__get__/__set__/__delete__ decision tables over {instance None, bound, passthrough, override present, target/parent "
            "missing, transform, fallback given, fallback immutable, last path element is an item} compared exhaustively with the oracle "
            "(override wins, transform applied to the target only, fallback handed out as a fresh copy, passthrough writes exactly one "
            "target write and none on the override slot and vice versa); path parser acceptance; DeprecatedAlias warns then delegates "
            "unchanged.",
            "exhaustive decision-table extraction by abstract interpretation vs. protocol oracle"),
    "C20": ("Schedules are not enumerated; decided is the discipline that makes them irrelevant: copyreg.dispatch_table has exactly two "
            "writers (install/delete), every use of _modules_copyable is a `with` context, the extracted transition tables of "
            "__enter__/__exit__ over refcount 0..3 x patched x entry-present equal the oracle, an inductive invariant (patched <=> entry is "
            "ours; refcount 0 => not ours) is preserved by the extracted tables, every counter/table access happens while self.lock is "
            "held, the lock object is never replaced, and the singleton's state is initialised once under a creation lock.",
            "lockset + who-may-write rules + inductive invariant over transition tables extracted by abstract interpretation"),
    "C13": ("Structural clauses only (equivalence with a plain list over operation sequences is not claimed). Own methods plus the "
            "inherited MutableSequence mixins parsed from the interpreter's _collections_abc.py: who-may-write the two stores and paired "
            "list/index updates on every normal path; no failure point after the first store write in single-element operations "
            "(__setitem__/__delitem__/insert/append/pop/remove); in-place slot assignment for replacement; _validate_item table; duplicate "
            "rejection before writing; reverse overridden; key function forwarded by every type(self)(...) construction; key views read "
            "only the key index; decision table of __contains__ (key present or element is/== value); no truthiness test on an item "
            "looked up in the key index.",
            "paired-update / write-then-raise analysis by abstract interpretation over own + inherited mixin bodies, who-may-write AST rules"),
    "C14": ("Structural clauses only (operation sequences against a dict model are not claimed): exhaustive decision table of add() "
            "(validate first; ValueError iff enforce, key present and items differ, with nothing written; otherwise exactly one store); "
            "writers of the key index; sibling agreement of __contains__ and discard over all 16 assignments of {argument is a present key, "
            "key(argument) present, enforce, equal} against the statement's oracle; key lookup before item lookup; _from_iterable "
            "overridden and forwarding key function and enforce flag; inherited algebra mixins use only the key-resolving primitives.",
            "exhaustive decision-table extraction + sibling cross-check by abstract interpretation"),
    "C15": ("check_type is a structural recursion over a finite set of annotation shapes: its body is partially evaluated once per shape "
            "(15 shapes: Any, TypeVar, float, class, Union, X|Y, Literal, List/list/Set, Dict, Tuple[A,...], Tuple[A0,A1], Type, other "
            "alias) with recursive calls summarised as atoms, and the residual decision structure of every path is compared with the "
            "shape's oracle; bounded(): validator verdict for every ordering combination of up to two bounds incl. zero (falsy) bounds; "
            "__instancecheck__ / validated() wiring. isinstance/== of user values are trusted.",
            "partial evaluation per annotation shape (abstract interpretation) vs. structural oracle; exhaustive ordering table"),
    "C16": ("Who may write to the decorated class, and under which guard: exhaustive decision table of register_method (write iff name "
            "not in the class's own __dict__ or __spec_class prefix); every class-state write of the package is an enumerated site with its "
            "guard; registry contents and naming (4 scalar / 4 element per family / 3 top-level; element family iff collection; "
            "__spec_class_* always registered); private-name filters at both sources; singular fallback and collision loop over all "
            "attributes; decision table of inherit_annotations (attrs_skip tested by identity, not truthiness); objects registered under "
            "two names are built methods, not lazy descriptors.",
            "decision-table extraction + who-may-write / registry-exhaustiveness AST rules"),
    "C17": ("The generator is analysed, not its exec output: builder chain vs implementation signature for the 19 helpers and __init__ "
            "(names, kinds, defaults, **kw for virtual keywords, _inplace/_if keyword-only False/True), nested-keyword source type per "
            "helper family, exhaustive truth table of the with_spec_attrs_for filter, validate_attrs before implementation in the exec "
            "template and exact membership test, per-kind tables of the call/definition string generators over all 5 parameter kinds, "
            "advertised signature composition, parameter liveness (incl. pairs of keyword groups of mutate_value both taking effect on some "
            "path, and a call-independent constructor-argument memo).",
            "cross-checking of sibling artefacts (builder chain, def signature, exec template) over the AST; finite truth tables"),
    "C19": ("Schedules are not enumerated; decided is the lock discipline that makes them irrelevant: every lazy trigger reaches "
            "bootstrap() only inside `with <per-class lock>` (the same lock as the __new__ wrapper) with a re-check of the bootstrapped "
            "state dominating the call; placeholders are given the locked trigger; the wrapper tests its marker and installs/removes "
            "__new__ only inside the lock, after triggering bootstrap and before delegating; no foreign spec-class lookups under the lock; "
            "method descriptors dissolve onto the registering class with an idempotent value; the metadata object is not written after it "
            "is published on the class; the inherited __new__ is resolved through the MRO.",
            "lockset / double-checked-locking structural analysis over the AST"),
}

NOT_YET = "check under construction in this round; see DESIGN.md"


def main():
    props = [json.loads(l) for l in open(f"{V}/properties.jsonl")]
    checks, na = [], []
    for p in props:
        pid = p["id"]
        have = os.path.exists(f"{V}/sa/rules/{pid.lower()}.py") and pid in CLAIMS
        if not have:
            na.append({"property_id": pid, "reason": NA.get(pid, NOT_YET)})
            continue
        text, tech = CLAIMS[pid]
        checks.append({
            "property_id": pid,
            "quick_cmd": f"{PY} {V}/check.py {pid} --tier quick",
            "thorough_cmd": f"{PY} {V}/check.py {pid} --tier thorough",
            "evidence_file": f"{V}/evidence/{pid}.json",
            "replay_cmd_template": f"cat {{path}}  # violations of the last run: rule, construct key, file:line, abstract path",
            "engine": "sa",
            "level_claimed": {"category": "other", "text": text, "design_ref": f"DESIGN.md section 3, {pid}"},
            "level_note": COMMON_NOTE,
            "technique": "static analysis: " + tech,
        })
    man = {
        "version": 1,
        "setup_cmd": f"{PY} -m compileall -q {V}/sa {V}/check.py",
        "hooks": {"guard": "SPEC_CLASSES_VERIF",
                  "enable": "none needed: the checks are static and read /repo/spec_classes as source; no hook commits",
                  "baseline_off_cmd": "cd /repo && /venv/bin/python -m pytest -ra -q -p no:cacheprovider --timeout=900 --continue-on-collection-errors",
                  "source_commits": [], "add_only": True},
        "engines": [{"name": "sa", "path": f"{V}/sa",
                     "serves_properties": [c["property_id"] for c in checks],
                     "kind_free_text": "stdlib-ast program model + finite-domain abstract (effect/provenance) interpreter + structural rules"}],
        "checks": checks,
        "not_applicable": na,
        "notes": "Static-analysis family only. Known genuine defects that are recorded rather than repaired: known_findings.json; repaired ones are `fix:` commits in /repo.",
    }
    json.dump(man, open(f"{V}/MANIFEST.json", "w"), indent=1)
    print("claimed:", [c["property_id"] for c in checks])
    print("not applicable:", [n["property_id"] for n in na])


NA = {}

if __name__ == "__main__":
    main()
