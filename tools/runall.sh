#!/bin/bash
# run every claimed check (quick or $1) in parallel; print one line each
tier=${1:-quick}
cd /verif
for p in $(/venv/bin/python -c "import json;print(' '.join(c['property_id'] for c in json.load(open('MANIFEST.json'))['checks']))"); do
  ( /venv/bin/python check.py $p --tier $tier > /tmp/runall_$p.log 2>&1; echo "$p rc=$? $(grep -E '^C[0-9]+ \[' /tmp/runall_$p.log | tail -1)" ) &
done
wait
