#!/venv/bin/python
"""Driver: /venv/bin/python /verif/check.py <ID> [--tier quick|thorough]"""
import argparse
import importlib
import os
import sys
import traceback

sys.path.insert(0, os.path.dirname(os.path.abspath(__file__)))
sys.setrecursionlimit(20000)

from sa.model import AnalysisError  # noqa: E402
from sa.report import Report, finish  # noqa: E402
from sa.rules import base  # noqa: E402
from sa.state import Budget  # noqa: E402

REPO = os.environ.get("SA_REPO", "/repo")


def main():
    ap = argparse.ArgumentParser()
    ap.add_argument("pid")
    ap.add_argument("--tier", default=os.environ.get("VERIF_TIER", "quick"))
    ap.add_argument("--repo", default=REPO)
    a = ap.parse_args()
    pid = a.pid.upper()
    try:
        mod = importlib.import_module(f"sa.rules.{pid.lower()}")
        ctx = base.Ctx(a.repo, a.tier)
        base.set_ctx(ctx)
        rep = Report(pid, a.tier)
        mod.check(ctx, rep)
        meta = getattr(mod, "META", {})
        selftest_problem = None
        if a.tier == "thorough" and not os.environ.get("SA_SELFTEST_CHILD") and not os.environ.get("SA_NO_SELFTEST"):
            from sa import selftest
            from sa.report import triage
            main_verdict = "violation" if triage(rep)[0] else "pass"
            import json as _json
            files = set()
            for line in open(os.path.join(os.path.dirname(os.path.abspath(__file__)), "properties.jsonl")):
                d_ = _json.loads(line)
                if d_["id"] == pid:
                    files |= set(d_["anchors"]["files"])
            for q in rep.functions:                       # functions the interpreter entered / rules inspected
                mod = str(q).split(":")[0]
                if mod.startswith(ctx.p.package):
                    files.add(mod.replace(".", "/") + ".py")
            st = selftest.run(pid, a.repo, main_verdict, consulted_files=files)
            rep.extra["selftest"] = st
            b, g = st["breaking"], st["benign"]
            print(f"SELF-TEST property={pid}: breaking variants {b['detected']}/{b['total'] - b['skipped']} reported "
                  f"({b['declared_uncovered']} declared uncovered, {b['skipped']} skipped); "
                  f"benign variants {g['same_verdict']}/{g['total'] - g['skipped']} same verdict as the tree ({g['skipped']} skipped)")
            for m in b["missed"]:
                print(f"SELF-TEST-MISSED {m}")
            for m in g["alarms"]:
                print(f"SELF-TEST-ALARM {m}")
            if main_verdict == "pass" and (b["missed"] or g["alarms"]):
                selftest_problem = f"{len(b['missed'])} breaking variant(s) not reported, {len(g['alarms'])} benign variant(s) changed the verdict"
        rc = finish(rep, level=meta.get("level", "other"), explanation=meta.get("explanation", mod.__doc__ or ""),
                    assumptions=meta.get("assumptions", ()), trusted=meta.get("trusted", ()))
        if rc == 0 and selftest_problem:
            print(f"ANALYSIS-ERROR property={pid}: checker self-test failed: {selftest_problem}")
            sys.exit(2)
        sys.exit(rc)
    except (AnalysisError, Budget) as e:
        print(f"ANALYSIS-ERROR property={pid}: {e}")
        sys.exit(2)
    except SystemExit:
        raise
    except Exception as e:  # a crash of the checker is not a verdict about the code
        print(f"ANALYSIS-ERROR property={pid}: checker crashed: {type(e).__name__}: {e}")
        traceback.print_exc()
        sys.exit(2)


if __name__ == "__main__":
    main()
