print("placeholder")
