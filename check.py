#!/venv/bin/python
"""Driver: /venv/bin/python /verif/check.py <ID> [--tier quick|thorough]"""
import argparse
import importlib
import os
import sys
import traceback

sys.path.insert(0, os.path.dirname(os.path.abspath(__file__)))
sys.setrecursionlimit(20000)

from sa.model import AnalysisError  # noqa: E402
from sa.report import Report, finish  # noqa: E402
from sa.rules import base  # noqa: E402
from sa.state import Budget  # noqa: E402

REPO = os.environ.get("SA_REPO", "/repo")


def main():
    ap = argparse.ArgumentParser()
    ap.add_argument("pid")
    ap.add_argument("--tier", default=os.environ.get("VERIF_TIER", "quick"))
    ap.add_argument("--repo", default=REPO)
    a = ap.parse_args()
    pid = a.pid.upper()
    try:
        mod = importlib.import_module(f"sa.rules.{pid.lower()}")
        ctx = base.Ctx(a.repo, a.tier)
        base.set_ctx(ctx)
        rep = Report(pid, a.tier)
        mod.check(ctx, rep)
        meta = getattr(mod, "META", {})
        rc = finish(rep, level=meta.get("level", "other"), explanation=meta.get("explanation", mod.__doc__ or ""),
                    assumptions=meta.get("assumptions", ()), trusted=meta.get("trusted", ()))
        sys.exit(rc)
    except (AnalysisError, Budget) as e:
        print(f"ANALYSIS-ERROR property={pid}: {e}")
        sys.exit(2)
    except SystemExit:
        raise
    except Exception as e:  # a crash of the checker is not a verdict about the code
        print(f"ANALYSIS-ERROR property={pid}: checker crashed: {type(e).__name__}: {e}")
        traceback.print_exc()
        sys.exit(2)


if __name__ == "__main__":
    main()
