"""
Reproductions of the genuine defects listed in DESIGN.md section 5, against the
real code in /repo.  NOT part of any check (the checks are static); these are
the demonstrations that each reported rule violation is a real behaviour.

    /venv/bin/python /verif/findings/repro.py [ID ...]

Prints one line per finding: `<ID> PRESENT <what>` or `<ID> absent`.
"""
import copy
import copyreg
import sys
import threading
import types
import warnings
from typing import Dict, List, Optional, Set

warnings.simplefilter("ignore")

from spec_classes import Attr, spec_class, spec_property  # noqa: E402
from spec_classes.types import KeyedList, KeyedSet  # noqa: E402


def D1():
    "C20: nested copy leaves ModuleType in copyreg.dispatch_table"
    @spec_class
    class Inner:
        xs: List[int] = []

    @spec_class
    class Outer:
        inner: Optional[Inner] = None

    before = types.ModuleType in copyreg.dispatch_table
    Outer(inner=Inner(xs=[1]))  # the constructor copies its argument: a copy nested in a copy
    after = types.ModuleType in copyreg.dispatch_table
    return (not before) and after


def D2():
    "C19: two threads bootstrap the same lazy class twice (Attr consumed by the first)"
    gate = threading.Event()
    entered = threading.Event()
    calls = []

    @spec_class
    class L:
        xs: List[int] = Attr(default_factory=list, repr=False)

        @classmethod
        def ANNOTATION_TYPES(cls):
            calls.append(1)
            if len(calls) == 1:
                entered.set()
                gate.wait(2)
            return {}

    def first():
        L.__spec_class__

    t = threading.Thread(target=first)
    t.start()
    entered.wait(2)
    done = []

    def second():
        L.__spec_class__
        done.append(1)

    t2 = threading.Thread(target=second)
    t2.start()
    t2.join(0.5)
    gate.set()
    t.join()
    t2.join()
    spec = L.__spec_class__.attrs["xs"]
    return len(calls) > 1 or spec.repr is not False or not spec.default_factory


def D3():
    "C10: eq stops at the first pair of bound methods"
    class X:
        def m(self):
            pass

    x = X()

    @spec_class
    class E:
        f: object = None
        z: int = 0

    return E(f=x.m, z=1) == E(f=x.m, z=2)


def D4():
    "C06: falsy set element duplicated by transform_<item>"
    @spec_class
    class S:
        s: Set[int] = set()

    return S(s={0, 1}).transform_s_item(0, lambda v: 5).s == {0, 1, 5}


def D5():
    "C03: mapping key never type-checked by element helper"
    @spec_class
    class D:
        d: Dict[str, int] = {}

    try:
        r = D().with_d_item(1, 2)
    except (TypeError, ValueError):
        return False
    return 1 in r.d


def D6():
    "C08: reset/del ignore default_factory and plain-subclass overrides"
    @spec_class
    class A:
        d: List[int] = Attr(default_factory=list)
        x: int = 1

    class B(A):
        x = 2

    a = A(d=[1]).reset_d()
    bad1 = not hasattr(a, "d") or a.d != []
    b = B(x=5).reset_x()
    bad2 = b.x != 2
    return bad1 or bad2


def D7():
    "C08: constructor argument for a parent-owned attribute stored uncopied"
    @spec_class
    class P:
        xs: List[int] = []

    @spec_class
    class Sub(P):
        y: int = 0

    arg = [1]
    return Sub(xs=arg).xs is arg


def D8():
    "C13: KeyedList.__setitem__ loses an element on failure; negative index misplaced"
    l = KeyedList(["a", "b", "c"])
    try:
        l[0] = "b"
    except ValueError:
        pass
    bad1 = list(l) != ["a", "b", "c"]
    l2 = KeyedList(["a", "b"])
    l2[-1] = "d"
    bad2 = list(l2) != ["a", "d"]
    calls = []

    def key(x):
        calls.append(x)
        if len(calls) > 3:
            raise RuntimeError("key")
        return x

    l3 = KeyedList(["a", "b", "c"], key=key)
    try:
        del l3[0]
    except RuntimeError:
        pass
    bad3 = len(l3._list) != len(l3._dict)
    return bad1 or bad2 or bad3


def D9():
    "C13: reverse() raises / drops an element"
    l = KeyedList(["a", "b", "c"])
    try:
        l.reverse()
    except ValueError:
        return True
    return list(l) != ["c", "b", "a"]


def D10():
    "C13: + drops the key function"
    f = lambda x: x[0]  # noqa: E731
    try:
        r = KeyedList([[1]], key=f) + [[3]]
    except TypeError:
        return True
    return list(r) != [[1], [3]]


def D11():
    "C14: set operators drop key function / enforce flag"
    f = lambda x: x[0]  # noqa: E731
    try:
        r = KeyedSet([[1], [2]], key=f) | KeyedSet([[3]], key=f)
    except TypeError:
        return True
    r2 = KeyedSet([1], enforce_item_equivalence=True) | {2}
    return len(r) != 3 or not r2.enforce_item_equivalence


def D12():
    "C11: invalidation chain stops at an uncached intermediate"
    @spec_class
    class C:
        a: int = 1

        @spec_property(cache=False, invalidated_by=["a"])
        def p(self):
            return self.a + 1

        @spec_property(cache=True, invalidated_by=["p"])
        def q(self):
            return self.p + 1

    c = C()
    assert c.q == 3
    c.a = 5
    return c.q != 7


def D13():
    "C07: with_x on a frozen instance mutates the receiver"
    @spec_class(frozen=True)
    class F:
        x: int = 1

    f = F()
    g = f.with_x(20)
    return g is f or f.x != 1


def D14():
    "C07: inplace element helper edits the frozen instance's list before raising"
    from spec_classes import FrozenInstanceError

    @spec_class(frozen=True)
    class F:
        xs: List[int] = []

    f = F(xs=[1])
    try:
        f.with_x(3, _inplace=True)
    except FrozenInstanceError:
        pass
    return f.xs != [1]


def D15():
    "C19: helper accessed through a lazy subclass is planted in the subclass __dict__"
    @spec_class(bootstrap=True)
    class Base:
        x: int = 0

    @spec_class
    class Sub(Base):
        x: str = "a"

    import inspect

    Sub.with_x  # touch the helper through the subclass before it bootstraps
    Sub()  # bootstrap
    ann = inspect.signature(Sub.with_x).parameters["_new_value"].annotation
    return ann is int or ann == "int"


def D16():
    "C19: the decorator keeps the caller's do_not_copy list by reference; a lazy class reads it only at first use"
    from typing import List
    shared = ["a"]

    @spec_class(do_not_copy=shared)
    class Lazy:
        a: List[int]
        b: List[int]

    shared.append("b")      # the caller goes on using its list (e.g. for the next class)
    return Lazy.__spec_class__.attrs["b"].do_not_copy is True


def F_C01_1():
    "C01: item preparer rewrites the caller's list in place"
    @spec_class
    class P:
        items: List[str] = []

        def _prepare_item(self, item):
            return item.upper()

    lst = ["a", "b"]
    try:
        P().with_items(lst)
    except Exception:
        pass
    return lst != ["a", "b"]


def F_C02_1():
    "C02: update_<attr>() with nothing to apply shares the nested value"
    @spec_class
    class N:
        v: int = 0

    @spec_class
    class M:
        n: N = None

    m = M(n=N())
    return m.update_n().n is m.n


def F_C04_1():
    "C04: inplace multi-keyword update partially committed"
    @spec_class
    class X:
        a: int = 0
        b: int = 0

    x = X()
    try:
        x.update(a=1, b="bad", _inplace=True)
    except TypeError:
        pass
    return x.a != 0


def F_C13_1():
    "C13: extend stops half-way on a duplicate"
    l = KeyedList(["a"])
    try:
        l.extend(["x", "a"])
    except ValueError:
        pass
    return list(l) != ["a"]


def F_C07_1():
    "C07: copy-on-write helper on a frozen class with invalidated_by dependants raises"
    from spec_classes import FrozenInstanceError

    @spec_class(frozen=True)
    class F:
        a: int = 1
        b: int = Attr(default=0, invalidated_by=["a"])

    try:
        F().with_a(2)
    except FrozenInstanceError:
        return True
    return False


def F_C07_2():
    "C07: reset_<attr>() on a frozen instance raises"
    from spec_classes import FrozenInstanceError

    @spec_class(frozen=True)
    class F:
        a: int = 1

    try:
        F(a=3).reset_a()
    except FrozenInstanceError:
        return True
    return False


def F_C07_3():
    "C07: update(**attrs) on a frozen instance raises"
    from spec_classes import FrozenInstanceError

    @spec_class(frozen=True)
    class F:
        a: int = 1

    try:
        F().update(a=2)
    except FrozenInstanceError:
        return True
    return False


def F_C04_2():
    "C04: in-place transform of a KeyedSet element loses it when the new element collides"
    @spec_class(key="k")
    class I:
        k: str
        v: int = 0

    @spec_class
    class H:
        items: KeyedSet[I, str] = Attr(default_factory=lambda: KeyedSet(enforce_item_equivalence=True))

    h = H(items=KeyedSet([I("a", v=1), I("b", v=2)], enforce_item_equivalence=True))
    before = sorted(i.k for i in h.items)
    try:
        h.transform_item("a", lambda i: I("b", v=99), _inplace=True)
    except ValueError:
        pass
    return sorted(i.k for i in h.items) != before


def F_C01_2():
    "C01: transform_<attr>(f, k=g) on a missing attribute applies g to f's result in place"
    @spec_class
    class N:
        v: int = 0

    @spec_class
    class M:
        n: N
        other: N = None

    m = M(other=N())
    m.transform_n(lambda fresh: m.other, v=lambda v: 99)
    return m.other.v != 0


def F_C08_1():
    "C08: a subclass that only changes do_not_copy loses the inherited default_factory (the attribute comes up MISSING)"
    from spec_classes import Attr

    @spec_class
    class F:
        x: list = Attr(default_factory=lambda: [1])

    @spec_class(do_not_copy=True)
    class G(F):
        pass

    from spec_classes.types import MISSING
    return F().x == [1] and getattr(G(), "x", MISSING) is MISSING


def D17():
    "C09: a plain class between two spec classes re-runs the grandparent constructor without keywords"
    @spec_class
    class A:
        a: int = 1

    class P(A):
        pass

    @spec_class
    class B(P):
        b: int = 2

    return B(a=5).a != 5


def D18():
    "C10/C02: deepcopy of a self-referential instance recurses without bound"
    import copy
    from typing import Any

    @spec_class
    class Node:
        name: str = "n"
        parent: Any = None

    x = Node(name="root")
    x.parent = x
    try:
        y = copy.deepcopy(x)
    except RecursionError:
        return True
    return y.parent is not y


def D19():
    "C07: a decorated subclass of a frozen spec class is silently mutable"
    @spec_class(frozen=True)
    class P:
        a: int = 1

    @spec_class
    class C(P):
        b: int = 2

    c = C()
    try:
        c.a = 5
    except Exception:
        return False
    return True


def D20():
    "C10: deepcopy drops an attribute holding a method bound to the instance itself (deepcopy(x) != x)"
    import copy
    from typing import Any

    @spec_class
    class H:
        name: str = "h"
        cb: Any = None

        def ping(self):
            return self.name

    x = H(name="a")
    x.cb = x.ping
    y = copy.deepcopy(x)
    return "cb" not in y.__dict__ or x != y


def D21():
    "C18: an alias path with a double-quoted item followed by an attribute is rejected (single quotes work)"
    from spec_classes.types import Alias
    try:
        Alias('a["k"].b')
    except ValueError:
        return True
    return False


def F_C04_3():
    "C04: transform_<attr>(f, _inplace=True) whose f returns the receiver's own list: items are prepared in place before a later item is rejected"
    from typing import List

    @spec_class
    class M:
        xs: List[int]

        def _prepare_x(self, v):
            return v + 10 if v < 2 else "bad"

    m = M(xs=[])
    m.xs.extend([1, 5])
    try:
        m.transform_xs(lambda items: items, _inplace=True)
    except Exception:
        pass
    return m.xs != [1, 5]


def D22():
    "C05: with_<items>(UNCHANGED) empties a list attribute instead of leaving it unchanged"
    from typing import List
    from spec_classes.types import UNCHANGED

    @spec_class
    class S:
        xs: List[int] = [1]

    s = S()
    return s.with_xs(UNCHANGED).xs != [1]


def F_C05_1():
    "C05: with_<a>(MISSING) builds a default value instead of being a no-op returning the receiver"
    from spec_classes.types import MISSING

    @spec_class
    class S:
        a: int = 5

    s = S()
    r = s.with_a(MISSING)
    return r is not s and r.a == 0


def F_C05_2():
    "C05: update_<a>(UNCHANGED) returns an equal copy instead of the receiver"
    from spec_classes.types import UNCHANGED

    @spec_class
    class S:
        a: int = 5

    s = S()
    return s.update_a(UNCHANGED) is not s


def D23():
    "C19: a subclass with its own __new__ of a lazily bootstrapped spec class recurses on first instantiation"
    @spec_class
    class Base:
        x: int = 1

    class Sub(Base):
        def __new__(cls, *args, **kwargs):
            return super().__new__(cls)

    try:
        Sub(x=3)
    except RecursionError:
        return True
    return False


def D24():
    "C09: a subclass of a spec class with a defaulted init=False attribute cannot be instantiated"
    @spec_class
    class P:
        x: int = Attr(default=3, init=False)
        y: int = 1

    @spec_class
    class C(P):
        z: int = 2

    try:
        return C().x != 3
    except TypeError:
        return True


def D25():
    "C16: decorating a subclass renames the parent's shared Attr.item_name (and plants with_<attr>_item on the parent)"
    from typing import List

    @spec_class(bootstrap=True)
    class Parent:
        items: List[int] = []

    @spec_class(bootstrap=True)
    class Child(Parent):
        item: int = 0

    return Parent.__spec_class__.attrs["items"].item_name != "item"


def D26():
    "C02: Attr(do_not_copy=True) is ignored (the attribute is duplicated by copy-on-write helpers)"
    @spec_class
    class S:
        big: list = Attr(default_factory=list, do_not_copy=True)
        n: int = 0

    s = S(big=[1, 2])
    return s.with_n(1).big is not s.big


ALL = [D17, D18, D19, D20, D21, D22, D23, D24, D25, D26, F_C08_1, F_C04_3, F_C05_1, F_C05_2, D1, D2, D3, D4, D5, D6, D7, D8, D9, D10, D11, D12, D13, D14, D15, D16,
       F_C01_1, F_C02_1, F_C04_1, F_C13_1, F_C07_1, F_C07_2, F_C07_3, F_C04_2, F_C01_2]

if __name__ == "__main__":
    want = set(sys.argv[1:])
    for fn in ALL:
        if want and fn.__name__ not in want:
            continue
        try:
            present = fn()
            print(f"{fn.__name__:8s} {'PRESENT' if present else 'absent '}  {fn.__doc__}")
        except Exception as e:  # a crash of the scenario itself also demonstrates the defect
            print(f"{fn.__name__:8s} PRESENT  {fn.__doc__}  [raised {type(e).__name__}: {e}]")
